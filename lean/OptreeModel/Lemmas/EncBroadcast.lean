/-
  `BroadcastToCommonSuffixImpl` on encodings computes the tree-level least common suffix `STree.lub`
  (refinement, for C09).  The C++ walks both arrays right to left with integer cursors, writes the
  merged nodes in *reverse* post-order and patches the counts of a node after each child.
-/
import OptreeModel.Lemmas.UpToPrefix

namespace Optree

/-! ### where a sub-tree sits in an array -/

/-- the encoding of `s` occupies the positions ending at `p` -/
def SubAt (tr : List Node) (p : Int) (s : STree) : Prop :=
  ∃ pre post, tr = pre ++ s.enc ++ post ∧ p = ((pre.length + s.size : Nat) : Int) - 1

/-- the encodings of the forest `cs` (in order) occupy the positions ending at `q` (`q = -1 + start`
when the forest is empty) -/
def ForestAt (tr : List Node) (q : Int) (cs : List STree) : Prop :=
  ∃ pre post, tr = pre ++ STree.encL cs ++ post ∧ q = ((pre.length + STree.sizeL cs : Nat) : Int) - 1

theorem subAt_nodeAt {tr : List Node} {p : Int} {s : STree} (h : SubAt tr p s) :
    nodeAt tr p = .ok s.root := by
  obtain ⟨pre, post, rfl, rfl⟩ := h
  have hpos := STree.size_pos s
  unfold nodeAt
  have h1 : ¬ ((((pre.length + s.size : Nat) : Int) - 1) < 0) := by omega
  have h2 : ((((pre.length + s.size : Nat) : Int) - 1)).toNat = pre.length + (s.size - 1) := by omega
  simp only [h1, if_false, h2]
  rw [List.append_assoc, List.getElem?_append_right (by omega)]
  simp only [Nat.add_sub_cancel_left]
  rw [List.getElem?_append_left (by rw [STree.enc_length]; omega)]
  rw [STree.enc_eq s, List.getElem?_append_right (by rw [STree.encL_length]; cases s <;> simp [STree.size, STree.children, STree.sizeL])]
  have : s.size - 1 - (STree.encL s.children).length = 0 := by
    rw [STree.encL_length]; cases s <;> simp [STree.size, STree.children, STree.sizeL, STree.encL]
  simp [this]

theorem subAt_bound {tr : List Node} {p : Int} {s : STree} (h : SubAt tr p s) :
    ¬ (p + 1 < (s.size : Int)) := by
  obtain ⟨pre, post, rfl, rfl⟩ := h
  omega

theorem subAt_copyRev {tr : List Node} {p : Int} {s : STree} (h : SubAt tr p s) :
    copyRev tr p s.size = s.renc := by
  obtain ⟨pre, post, rfl, rfl⟩ := h
  have hpos := STree.size_pos s
  unfold Optree.copyRev
  have h2 : ((((pre.length + s.size : Nat) : Int) - 1)).toNat + 1 = pre.length + s.size := by omega
  rw [h2]
  have : (pre ++ s.enc ++ post).take (pre.length + s.size) = pre ++ s.enc := by
    rw [← STree.enc_length s, ← List.length_append, List.take_left]
  rw [this]
  have : pre.length + s.size - s.size = pre.length := by omega
  rw [this, List.drop_left]
  rfl

theorem subAt_children {tr : List Node} {p : Int} {i : NInfo} {cs : List STree}
    (h : SubAt tr p (.node i cs)) : ForestAt tr (p - 1) cs := by
  obtain ⟨pre, post, rfl, rfl⟩ := h
  refine ⟨pre, i.toNode cs.length (STree.leavesL cs) (STree.sizeL cs + 1) :: post, ?_, ?_⟩
  · simp [STree.enc]
  · simp only [STree.size]; omega

theorem forestAt_snoc {tr : List Node} {q : Int} {cs : List STree} {c : STree}
    (h : ForestAt tr q (cs ++ [c])) : SubAt tr q c ∧ ForestAt tr (q - c.size) cs := by
  obtain ⟨pre, post, rfl, rfl⟩ := h
  have hpos := STree.size_pos c
  constructor
  · refine ⟨pre ++ STree.encL cs, post, ?_, ?_⟩
    · simp [STree.encL_append, STree.encL]
    · simp only [List.length_append, STree.encL_length, STree.sizeL_append, STree.sizeL]; omega
  · refine ⟨pre, c.enc ++ post, ?_, ?_⟩
    · simp [STree.encL_append, STree.encL]
    · simp only [STree.sizeL_append, STree.sizeL]; omega

theorem subAt_whole (s : STree) : SubAt s.enc ((s.enc.length : Int) - 1) s :=
  ⟨[], [], by simp, by simp [STree.enc_length]⟩

/-! ### patching the counts of the node under construction -/

def bump (nd : Node) (rc : List STree) : Node :=
  { nd with numNodes := nd.numNodes + STree.sizeL rc, numLeaves := nd.numLeaves + STree.leavesL rc }

theorem modify_at_length (O : List Node) (nd : Node) (Y : List Node) (f : Node → Node) :
    (O ++ nd :: Y).modify O.length f = O ++ f nd :: Y := by
  induction O with
  | nil => simp [List.modify]
  | cons o O ih => simp [List.modify_cons, ih]

theorem getElem?_at_length (O : List Node) (nd : Node) (Y : List Node) :
    (O ++ nd :: Y)[O.length]? = some nd := by
  simp

mutual
/-- every node's payload fits its kind (`NInfo.fits`) -/
def STree.fitsT : STree → Bool
  | .leaf => true
  | .node i cs => i.fits && STree.fitsL cs
def STree.fitsL : List STree → Bool
  | [] => true
  | c :: cs => c.fitsT && STree.fitsL cs
end

theorem STree.fitsL_iff (cs : List STree) : STree.fitsL cs = true ↔ ∀ c ∈ cs, c.fitsT = true := by
  induction cs with
  | nil => simp [STree.fitsL]
  | cons c cs ih => simp [STree.fitsL, ih]

/-- what `broadcastGo` must return for the pair `(a, b)` -/
def goSpec (a b : STree) (out : List Node) : Except Err (BRes × List Node) :=
  match a.lub b with
  | Option.none => .error .value
  | some c => .ok (⟨a.size, b.size, c.size, c.leaves⟩, out ++ c.renc)

def BG (fuel : Nat) (a : STree) : Prop :=
  a.wf = true → a.fitsT = true → ∀ b : STree, b.wf = true → b.fitsT = true →
    ∀ (tr : List Node) (pos : Int) (otr : List Node) (opos : Int) (out : List Node),
      SubAt tr pos a → SubAt otr opos b → broadcastGo fuel tr pos otr opos out = goSpec a b out

theorem bump_cons (nd : Node) (c : STree) (rc : List STree) :
    bump { nd with numNodes := nd.numNodes + c.size, numLeaves := nd.numLeaves + c.leaves } rc =
      bump nd (c :: rc) := by
  simp only [bump, STree.sizeL, STree.leavesL]
  congr 1 <;> omega

/-- the common child loop, children taken last to first (`ra`, `rb` are the child lists reversed) -/
theorem broadcastChildren_enc (fuel : Nat) (hG : ∀ a : STree, a.size ≤ fuel → BG fuel a)
    (tr otr : List Node) (pos opos : Int) :
    ∀ (ra rb : List STree), STree.wfL ra = true → STree.fitsL ra = true → STree.wfL rb = true →
      STree.fitsL rb = true → ra.length = rb.length → STree.sizeL ra ≤ fuel →
    ∀ (cur ocur : Int) (O : List Node) (nd : Node) (X : List Node),
      ForestAt tr cur ra.reverse → ForestAt otr ocur rb.reverse →
      broadcastChildren fuel tr cur otr ocur ra.length (O ++ nd :: X) O.length pos opos =
        match STree.lubL ra rb with
        | Option.none => .error .value
        | some rc =>
            .ok (⟨pos - (cur - (STree.sizeL ra : Int)), opos - (ocur - (STree.sizeL rb : Int)),
                  (bump nd rc).numNodes, (bump nd rc).numLeaves⟩,
                 O ++ bump nd rc :: (X ++ (rc.map STree.renc).flatten))
  | [], [], _, _, _, _, _, _, cur, ocur, O, nd, X, _, _ => by
      simp [broadcastChildren, STree.lubL, STree.sizeL, bump, STree.leavesL]
  | [], _ :: _, _, _, _, _, h, _, _, _, _, _, _, _, _ => by simp at h
  | _ :: _, [], _, _, _, _, h, _, _, _, _, _, _, _, _ => by simp at h
  | r :: rs, d :: ds, hwa, hfa, hwb, hfb, hlen, hsz, cur, ocur, O, nd, X, hfa', hfb' => by
      simp only [STree.wfL, STree.fitsL, Bool.and_eq_true] at hwa hfa hwb hfb
      simp only [List.length_cons, Nat.add_right_cancel_iff] at hlen
      simp only [STree.sizeL] at hsz
      simp only [List.reverse_cons] at hfa' hfb'
      obtain ⟨hr, hrs⟩ := forestAt_snoc hfa'
      obtain ⟨hd, hds⟩ := forestAt_snoc hfb'
      have hgo := hG r (by omega) hwa.1 hfa.1 d hwb.1 hfb.1 tr cur otr ocur (O ++ nd :: X) hr hd
      simp only [List.length_cons, broadcastChildren, hgo, goSpec, STree.lubL]
      cases hl : r.lub d with
      | none => simp
      | some c =>
        simp only
        have hmod : ((O ++ nd :: X) ++ c.renc).modify O.length
            (fun n => { n with numNodes := n.numNodes + c.size, numLeaves := n.numLeaves + c.leaves }) =
            O ++ { nd with numNodes := nd.numNodes + c.size, numLeaves := nd.numLeaves + c.leaves } ::
              (X ++ c.renc) := by
          rw [List.append_assoc, List.cons_append, modify_at_length]
        rw [hmod]
        have ih := broadcastChildren_enc fuel hG tr otr pos opos rs ds hwa.2 hfa.2 hwb.2 hfb.2 hlen (by omega)
          (cur - (r.size : Int)) (ocur - (d.size : Int)) O
          { nd with numNodes := nd.numNodes + c.size, numLeaves := nd.numLeaves + c.leaves } (X ++ c.renc)
          hrs hds
        rw [ih]
        cases STree.lubL rs ds with
        | none => rfl
        | some rc =>
          simp only [bump_cons, List.map_cons, List.flatten_cons, List.append_assoc, STree.sizeL]
          congr 2
          · congr 1 <;> push_cast <;> omega

/-! ### the cursors of the other node's children -/

/-- cursor positions of a forest given last child first, listed child 0 first -/
def cursorsOf : Int → List STree → List Int
  | _, [] => []
  | q, r :: rs => cursorsOf (q - (r.size : Int)) rs ++ [q]

theorem cursorsOf_length (q : Int) (rb : List STree) : (cursorsOf q rb).length = rb.length := by
  induction rb generalizing q with
  | nil => rfl
  | cons r rs ih => simp [cursorsOf, ih]

theorem childCursors_forest (otr : List Node) : ∀ (rb : List STree) (q : Int) (acc : List Pos),
    ForestAt otr q rb.reverse →
    childCursors otr rb.length q acc = .ok (cursorsOf q rb ++ acc, q - (STree.sizeL rb : Int))
  | [], q, acc, _ => by simp [childCursors, cursorsOf, STree.sizeL]
  | r :: rs, q, acc, h => by
      simp only [List.reverse_cons] at h
      obtain ⟨hr, hrs⟩ := forestAt_snoc h
      simp only [List.length_cons, childCursors, subAt_nodeAt hr, STree.root_numNodes]
      rw [childCursors_forest otr rs (q - (r.size : Int)) (q :: acc) hrs]
      have harith : q - (r.size : Int) - (STree.sizeL rs : Int) = q - ((r.size + STree.sizeL rs : Nat) : Int) := by
        omega
      simp only [cursorsOf, List.append_assoc, List.singleton_append, STree.sizeL, harith]

theorem cursorsOf_subAt (otr : List Node) : ∀ (rb : List STree) (q : Int), ForestAt otr q rb.reverse →
    ∀ (j : Nat) (p : Int) (d : STree), (cursorsOf q rb)[j]? = some p → rb.reverse[j]? = some d → SubAt otr p d
  | [], _, _, j, p, d, h1, _ => by simp [cursorsOf] at h1
  | r :: rs, q, h, j, p, d, h1, h2 => by
      simp only [List.reverse_cons] at h h2
      obtain ⟨hr, hrs⟩ := forestAt_snoc h
      simp only [cursorsOf] at h1
      by_cases hj : j < rs.length
      · rw [List.getElem?_append_left (by rw [cursorsOf_length]; exact hj)] at h1
        rw [List.getElem?_append_left (by simpa using hj)] at h2
        exact cursorsOf_subAt otr rs _ hrs j p d h1 h2
      · have hlen := cursorsOf_length (q - (r.size : Int)) rs
        rw [List.getElem?_append_right (by omega)] at h1
        rw [List.getElem?_append_right (by simp; omega)] at h2
        have hj0 : j = rs.length := by
          rcases Nat.eq_zero_or_pos (j - rs.length) with h0 | hpos
          · omega
          · rw [hlen, List.getElem?_eq_none (by simp; omega)] at h1
            exact absurd h1 (by simp)
        subst hj0
        simp only [hlen, Nat.sub_self, List.getElem?_cons_zero, Option.some.injEq, List.length_reverse] at h1 h2
        subst h1; subst h2
        exact hr

/-- the dict child loop: the other cursor jumps to the child with the same key -/
theorem broadcastDictChildren_enc (fuel : Nat) (hG : ∀ a : STree, a.size ≤ fuel → BG fuel a)
    (tr otr : List Node) (pos : Int) (ow : Int) (okeys : List Key) (ds : List STree) (curs : List Int)
    (hkd : okeys.length = ds.length) (hwd : STree.wfL ds = true) (hfd : STree.fitsL ds = true)
    (hcurs : ∀ (j : Nat) (p : Int) (d : STree), curs[j]? = some p → ds[j]? = some d → SubAt otr p d)
    (hcl : curs.length = ds.length) :
    ∀ (ra : List STree) (krev : List Key), STree.wfL ra = true → STree.fitsL ra = true →
      krev.length = ra.length → (∀ k ∈ krev, k ∈ okeys) → STree.sizeL ra ≤ fuel →
    ∀ (cur : Int) (O : List Node) (nd : Node) (X : List Node), ForestAt tr cur ra.reverse →
      broadcastDictChildren fuel tr cur otr curs krev okeys (O ++ nd :: X) O.length pos ow =
        match STree.lubL ra (pickD krev okeys ds) with
        | Option.none => .error .value
        | some rc =>
            .ok (⟨pos - (cur - (STree.sizeL ra : Int)), ow, (bump nd rc).numNodes, (bump nd rc).numLeaves⟩,
                 O ++ bump nd rc :: (X ++ (rc.map STree.renc).flatten))
  | [], [], _, _, _, _, _, cur, O, nd, X, _ => by
      simp [broadcastDictChildren, pickD, STree.lubL, STree.sizeL, bump, STree.leavesL]
  | [], _ :: _, _, _, h, _, _, _, _, _, _, _ => by simp at h
  | _ :: _, [], _, _, h, _, _, _, _, _, _, _ => by simp at h
  | r :: rs, k :: ks, hwa, hfa, hlen, hmem, hsz, cur, O, nd, X, hfa' => by
      simp only [STree.wfL, STree.fitsL, Bool.and_eq_true] at hwa hfa
      simp only [List.length_cons, Nat.add_right_cancel_iff] at hlen
      simp only [STree.sizeL] at hsz
      simp only [List.reverse_cons] at hfa'
      obtain ⟨hr, hrs⟩ := forestAt_snoc hfa'
      obtain ⟨j, hj⟩ := keyIndex_of_mem (hmem k (by simp))
      have hjd : j < ds.length := hkd ▸ keyIndex_lt hj
      have hlook : lookupChild k okeys ds = some ds[j] := by
        rw [lookupChild_eq_getElem k okeys ds hkd, hj]; simp [hjd]
      have hcj : curs[j]? = some curs[j] := List.getElem?_eq_getElem (by omega)
      have hsub : SubAt otr curs[j] ds[j] := hcurs j _ _ hcj (List.getElem?_eq_getElem hjd)
      have hwdj : (ds[j]).wf = true := (STree.wfL_iff ds).mp hwd _ (List.getElem_mem hjd)
      have hfdj : (ds[j]).fitsT = true := (STree.fitsL_iff ds).mp hfd _ (List.getElem_mem hjd)
      have hgo := hG r (by omega) hwa.1 hfa.1 ds[j] hwdj hfdj tr cur otr curs[j] (O ++ nd :: X) hr hsub
      rw [pickD_cons k ks okeys ds _ hlook]
      simp only [broadcastDictChildren, hj, hcj, hgo, goSpec, STree.lubL]
      cases hl : r.lub ds[j] with
      | none => simp
      | some c =>
        simp only
        have hmod : ((O ++ nd :: X) ++ c.renc).modify O.length
            (fun n => { n with numNodes := n.numNodes + c.size, numLeaves := n.numLeaves + c.leaves }) =
            O ++ { nd with numNodes := nd.numNodes + c.size, numLeaves := nd.numLeaves + c.leaves } ::
              (X ++ c.renc) := by
          rw [List.append_assoc, List.cons_append, modify_at_length]
        rw [hmod]
        have ih := broadcastDictChildren_enc fuel hG tr otr pos ow okeys ds curs hkd hwd hfd hcurs hcl rs ks
          hwa.2 hfa.2 hlen (fun k' hk' => hmem k' (by simp [hk'])) (by omega)
          (cur - (r.size : Int)) O
          { nd with numNodes := nd.numNodes + c.size, numLeaves := nd.numLeaves + c.leaves } (X ++ c.renc) hrs
        rw [ih]
        cases STree.lubL rs (pickD ks okeys ds) with
        | none => rfl
        | some rc =>
          simp only [bump_cons, List.map_cons, List.flatten_cons, List.append_assoc, STree.sizeL]
          congr 2
          · congr 1; push_cast; omega

/-! ### list-level facts about `lubL` -/

theorem STree.lubL_length : ∀ (cs ds rc : List STree), STree.lubL cs ds = some rc →
    rc.length = cs.length ∧ cs.length = ds.length
  | [], [], rc, h => by simp [STree.lubL] at h; subst h; simp
  | [], _ :: _, _, h => by simp [STree.lubL] at h
  | _ :: _, [], _, h => by simp [STree.lubL] at h
  | c :: cs, d :: ds, rc, h => by
      simp only [STree.lubL] at h
      cases h1 : c.lub d with
      | none => simp [h1] at h
      | some x =>
        cases h2 : STree.lubL cs ds with
        | none => simp [h1, h2] at h
        | some xs =>
          simp [h1, h2] at h
          subst h
          have := STree.lubL_length cs ds xs h2
          simp [this.1, this.2]

theorem STree.lubL_snoc : ∀ (xs ys : List STree) (x y : STree), xs.length = ys.length →
    STree.lubL (xs ++ [x]) (ys ++ [y]) =
      match STree.lubL xs ys, x.lub y with
      | some r, some c => some (r ++ [c])
      | _, _ => Option.none
  | [], [], x, y, _ => by
      simp only [List.nil_append, STree.lubL]
      cases x.lub y <;> simp
  | [], _ :: _, _, _, h => by simp at h
  | _ :: _, [], _, _, h => by simp at h
  | a :: xs, b :: ys, x, y, h => by
      simp only [List.length_cons, Nat.add_right_cancel_iff] at h
      simp only [List.cons_append, STree.lubL, STree.lubL_snoc xs ys x y h]
      cases a.lub b <;> cases STree.lubL xs ys <;> cases x.lub y <;> simp

theorem STree.lubL_reverse : ∀ (cs ds : List STree), cs.length = ds.length →
    STree.lubL cs.reverse ds.reverse = (STree.lubL cs ds).map List.reverse
  | [], [], _ => by simp [STree.lubL]
  | [], _ :: _, h => by simp at h
  | _ :: _, [], h => by simp at h
  | c :: cs, d :: ds, h => by
      simp only [List.length_cons, Nat.add_right_cancel_iff] at h
      simp only [List.reverse_cons]
      rw [STree.lubL_snoc _ _ _ _ (by simpa using h), STree.lubL_reverse cs ds h]
      simp only [STree.lubL]
      cases c.lub d <;> cases STree.lubL cs ds <;> simp

theorem STree.lubD_eq (oks : List Key) (ds : List STree) (hlen : oks.length = ds.length) :
    ∀ (ks : List Key) (cs : List STree), ks.length = cs.length → (∀ k ∈ ks, k ∈ oks) →
      STree.lubD ks cs oks ds = STree.lubL cs (pickD ks oks ds)
  | [], [], _, _ => by simp [STree.lubD, STree.lubL, pickD]
  | [], _ :: _, h, _ => by simp at h
  | _ :: _, [], h, _ => by simp at h
  | k :: ks, c :: cs, h, hm => by
      obtain ⟨j, hj⟩ := keyIndex_of_mem (hm k (by simp))
      have hjd : j < ds.length := hlen ▸ keyIndex_lt hj
      have hl : lookupChild k oks ds = some ds[j] := by
        rw [lookupChild_eq_getElem k oks ds hlen, hj]; simp [hjd]
      have ih := STree.lubD_eq oks ds hlen ks cs (by simpa using h) (fun k' hk' => hm k' (by simp [hk']))
      rw [pickD_cons k ks oks ds _ hl]
      simp [STree.lubD, STree.lubL, hl, ih]

theorem pickD_reverse (ks oks : List Key) (ds : List STree) :
    pickD ks.reverse oks ds = (pickD ks oks ds).reverse := by
  simp [pickD, List.filterMap_reverse]

theorem STree.sizeL_reverse (cs : List STree) : STree.sizeL cs.reverse = STree.sizeL cs :=
  STree.sizeL_perm (List.reverse_perm cs)

theorem STree.leavesL_reverse (cs : List STree) : STree.leavesL cs.reverse = STree.leavesL cs := by
  rw [STree.leavesL_eq_sum, STree.leavesL_eq_sum]
  exact ((List.reverse_perm cs).map STree.leaves).sum_nat

theorem STree.wfL_reverse (cs : List STree) (h : STree.wfL cs = true) : STree.wfL cs.reverse = true :=
  STree.wfL_perm (List.reverse_perm cs) h

theorem STree.fitsL_reverse (cs : List STree) (h : STree.fitsL cs = true) : STree.fitsL cs.reverse = true := by
  rw [STree.fitsL_iff] at h ⊢
  intro c hc
  exact h c (by simpa using hc)

/-- assembling the result of a node whose children loop returned `rc` (last child first) -/
theorem node_result (i j : NInfo) (cs ds : List STree) (rc' : List STree) (hl : rc'.length = cs.length)
    (out : List Node) (pos opos : Int) :
    (Except.ok (⟨pos - (pos - 1 - (STree.sizeL cs.reverse : Int)), opos - (opos - 1 - (STree.sizeL ds.reverse : Int)),
        (bump { i.toNode cs.length (STree.leavesL cs) (STree.sizeL cs + 1) with numLeaves := 0, numNodes := 1 }
          rc'.reverse).numNodes,
        (bump { i.toNode cs.length (STree.leavesL cs) (STree.sizeL cs + 1) with numLeaves := 0, numNodes := 1 }
          rc'.reverse).numLeaves⟩,
      out ++ bump { i.toNode cs.length (STree.leavesL cs) (STree.sizeL cs + 1) with numLeaves := 0, numNodes := 1 }
          rc'.reverse :: ([] ++ (rc'.reverse.map STree.renc).flatten)) : Except Err (BRes × List Node)) =
    .ok (⟨((STree.node i cs).size : Nat), ((STree.node j ds).size : Nat), (STree.node i rc').size,
          (STree.node i rc').leaves⟩, out ++ (STree.node i rc').renc) := by
  have h1 : pos - (pos - 1 - (STree.sizeL cs.reverse : Int)) = ((STree.node i cs).size : Nat) := by
    simp only [STree.sizeL_reverse, STree.size]; push_cast; omega
  have h2 : opos - (opos - 1 - (STree.sizeL ds.reverse : Int)) = ((STree.node j ds).size : Nat) := by
    simp only [STree.sizeL_reverse, STree.size]; push_cast; omega
  rw [h1, h2]
  have h3 : (STree.node i rc').renc =
      i.toNode rc'.length (STree.leavesL rc') (STree.sizeL rc' + 1) :: (rc'.reverse.map STree.renc).flatten := by
    rw [STree.renc_eq]; simp [STree.root, STree.children, STree.rencL_eq_flatten]
  rw [h3]
  simp only [bump, NInfo.toNode, STree.sizeL_reverse, STree.leavesL_reverse, STree.size, STree.leaves, hl,
    List.nil_append, Nat.zero_add, Nat.add_comm 1]

/-! ### the merge walk -/

theorem bg_all : ∀ (fuel : Nat) (a : STree), a.size ≤ fuel → BG fuel a
  | 0, a, h => by have := STree.size_pos a; omega
  | f + 1, a, h => by
      intro ha hfa b hb hfb tr pos otr opos out hsa hsb
      have hna := subAt_nodeAt hsa
      have hnb := subAt_nodeAt hsb
      have hba := subAt_bound hsa
      have hbb := subAt_bound hsb
      unfold broadcastGo
      simp only [hna, hnb, STree.root_numNodes, STree.root_numLeaves]
      have hnolt : (decide (pos + 1 < (a.size : Int)) || decide (opos + 1 < (b.size : Int))) = false := by
        simp [hba, hbb]
      simp only [hnolt, Bool.false_eq_true, if_false]
      cases a with
      | leaf =>
        have := subAt_copyRev hsb
        simp [STree.root, Node.leaf, goSpec, STree.lub, this, STree.size]
      | node i cs =>
        obtain ⟨hnl, hnone, hdict, hwa⟩ := STree.wf_node ha
        have hfa1 : i.fits = true := by simp only [STree.fitsT, Bool.and_eq_true] at hfa; exact hfa.1
        have hfa2 : STree.fitsL cs = true := by simp only [STree.fitsT, Bool.and_eq_true] at hfa; exact hfa.2
        have hk : (i.kind == Kind.leaf) = false := by simp [hnl]
        cases b with
        | leaf =>
          have := subAt_copyRev hsa
          simp only [STree.size] at this
          simp [STree.root, NInfo.toNode, Node.leaf, hk, goSpec, STree.lub, this, STree.size, STree.leaves]
        | node j ds =>
          obtain ⟨hnlb, hnoneb, hdictb, hwb⟩ := STree.wf_node hb
          have hfb1 : j.fits = true := by simp only [STree.fitsT, Bool.and_eq_true] at hfb; exact hfb.1
          have hfb2 : STree.fitsL ds = true := by simp only [STree.fitsT, Bool.and_eq_true] at hfb; exact hfb.2
          have hkb : (j.kind == Kind.leaf) = false := by simp [hnlb]
          simp only [STree.size, Nat.add_le_add_iff_right] at h
          simp only [STree.root, NInfo.toNode, hk, hkb, Bool.false_eq_true, if_false, goSpec, STree.lub]
          rcases Kind.cases_eq i.kind with hkind | hkind | hkind | hkind | hkind | hkind | hkind | hkind |
              hkind | hkind | hkind
          · -- custom
            have hkn : (Kind.custom == Kind.none) = false := rfl
            obtain ⟨r, hcus⟩ : ∃ r, i.custom = some r := by
              simp only [NInfo.fits, hkind, Bool.and_eq_true] at hfa1
              exact Option.isSome_iff_exists.mp hfa1.2
            simp only [hkind, hkn, Bool.false_eq_true, if_false, hcus]
            by_cases hk2 : j.kind = Kind.custom
            · obtain ⟨r', hcus'⟩ : ∃ r, j.custom = some r := by
                simp only [NInfo.fits, hk2, Bool.and_eq_true] at hfb1
                exact Option.isSome_iff_exists.mp hfb1.2
              simp only [hk2, hcus', bne_self_eq_false, Bool.false_eq_true, if_false, Bool.false_or]
              by_cases hc1 : (r.cls != r'.cls || r.clsKind != r'.clsKind) = true
              · simp only [hc1, if_true]
                have : (r.cls != r'.cls || r.clsKind != r'.clsKind || cs.length != ds.length || i.data != j.data) = true := by
                  simp only [Bool.or_eq_true] at hc1 ⊢; exact Or.inl (Or.inl hc1)
                simp [this]
              · have hc1f : (r.cls != r'.cls || r.clsKind != r'.clsKind) = false := by simpa using hc1
                simp only [hc1f, Bool.false_eq_true, if_false, Bool.false_or]
                by_cases hl : cs.length = ds.length
                · have hlf : (cs.length != ds.length) = false := by simp [hl]
                  by_cases hdat : i.data = j.data
                  · have hdf : (i.data != j.data) = false := by simp [hdat]
                    simp only [hlf, hdf, Bool.false_eq_true, if_false, Bool.or_self]
                    have hch := broadcastChildren_enc f (fun a h => bg_all f a h) tr otr pos opos cs.reverse ds.reverse
                      (STree.wfL_reverse cs hwa) (STree.fitsL_reverse cs hfa2) (STree.wfL_reverse ds hwb) (STree.fitsL_reverse ds hfb2)
                      (by simp [hl]) (by rw [STree.sizeL_reverse]; omega) (pos - 1) (opos - 1) out
                      { i.toNode cs.length (STree.leavesL cs) (STree.sizeL cs + 1) with numLeaves := 0, numNodes := 1 } []
                      (by simpa using subAt_children hsa) (by simpa using subAt_children hsb)
                    simp only [List.length_reverse, NInfo.toNode, hkind, hcus] at hch
                    rw [show ∀ (n : Node), out ++ [n] = out ++ n :: [] from fun _ => rfl]
                    rw [hch, STree.lubL_reverse cs ds hl]
                    cases hlub : STree.lubL cs ds with
                    | none => simp
                    | some rc' =>
                      simp only [Option.map_some]
                      have := node_result i j cs ds rc' (STree.lubL_length cs ds rc' hlub).1 out pos opos
                      simp only [NInfo.toNode, hkind, hcus] at this
                      exact this
                  · have hdt : (i.data != j.data) = true := by simp [hdat]
                    simp [hlf, hdt]
                · have hl' : (cs.length != ds.length) = true := by simp [hl]
                  simp [hl']
            · have hk2' : (Kind.custom != j.kind) = true := by
                simp only [bne_iff_ne, ne_eq]; exact fun e => hk2 e.symm
              have hk2'' : (j.kind != Kind.custom) = true := by simp [hk2]
              simp only [hk2', if_true]
              cases j.custom <;> simp [hk2'']
          · exact absurd hkind hnl
          · -- none
            have hcs := hnone hkind
            subst hcs
            simp only [hkind, beq_self_eq_true, if_true]
            by_cases hjn : j.kind = Kind.none
            · have hds := hnoneb hjn
              subst hds
              simp [hjn, hkind, STree.size, STree.sizeL, STree.leaves, STree.leavesL, STree.renc, STree.enc, STree.encL,
                NInfo.toNode]
            · simp [hjn]
          · -- tuple
            have hkn : (Kind.tuple == Kind.none) = false := rfl
            simp only [hkind, hkn, Bool.false_eq_true, if_false]
            by_cases hk2 : j.kind = Kind.tuple
            · by_cases hl : cs.length = ds.length
              · have hlf : (cs.length != ds.length) = false := by simp [hl]
                simp only [hk2, hlf, bne_self_eq_false, Bool.false_eq_true, if_false, Bool.or_self]
                have hch := broadcastChildren_enc f (fun a h => bg_all f a h) tr otr pos opos cs.reverse ds.reverse
                  (STree.wfL_reverse cs hwa) (STree.fitsL_reverse cs hfa2) (STree.wfL_reverse ds hwb) (STree.fitsL_reverse ds hfb2)
                  (by simp [hl]) (by rw [STree.sizeL_reverse]; omega) (pos - 1) (opos - 1) out
                  { i.toNode cs.length (STree.leavesL cs) (STree.sizeL cs + 1) with numLeaves := 0, numNodes := 1 } []
                  (by simpa using subAt_children hsa) (by simpa using subAt_children hsb)
                simp only [List.length_reverse, NInfo.toNode, hkind] at hch
                rw [show ∀ (n : Node), out ++ [n] = out ++ n :: [] from fun _ => rfl]
                rw [hch, STree.lubL_reverse cs ds hl]
                cases hlub : STree.lubL cs ds with
                | none => simp
                | some rc' =>
                  simp only [Option.map_some]
                  have := node_result i j cs ds rc' (STree.lubL_length cs ds rc' hlub).1 out pos opos
                  simp only [NInfo.toNode, hkind] at this
                  exact this
              · have hl' : (cs.length != ds.length) = true := by simp [hl]
                simp [hk2, hl']
            · have hk2' : (Kind.tuple != j.kind) = true := by
                simp only [bne_iff_ne, ne_eq]; exact fun e => hk2 e.symm
              simp [hk2']
          · -- list
            have hkn : (Kind.list == Kind.none) = false := rfl
            simp only [hkind, hkn, Bool.false_eq_true, if_false]
            by_cases hk2 : j.kind = Kind.list
            · by_cases hl : cs.length = ds.length
              · have hlf : (cs.length != ds.length) = false := by simp [hl]
                simp only [hk2, hlf, bne_self_eq_false, Bool.false_eq_true, if_false, Bool.or_self]
                have hch := broadcastChildren_enc f (fun a h => bg_all f a h) tr otr pos opos cs.reverse ds.reverse
                  (STree.wfL_reverse cs hwa) (STree.fitsL_reverse cs hfa2) (STree.wfL_reverse ds hwb) (STree.fitsL_reverse ds hfb2)
                  (by simp [hl]) (by rw [STree.sizeL_reverse]; omega) (pos - 1) (opos - 1) out
                  { i.toNode cs.length (STree.leavesL cs) (STree.sizeL cs + 1) with numLeaves := 0, numNodes := 1 } []
                  (by simpa using subAt_children hsa) (by simpa using subAt_children hsb)
                simp only [List.length_reverse, NInfo.toNode, hkind] at hch
                rw [show ∀ (n : Node), out ++ [n] = out ++ n :: [] from fun _ => rfl]
                rw [hch, STree.lubL_reverse cs ds hl]
                cases hlub : STree.lubL cs ds with
                | none => simp
                | some rc' =>
                  simp only [Option.map_some]
                  have := node_result i j cs ds rc' (STree.lubL_length cs ds rc' hlub).1 out pos opos
                  simp only [NInfo.toNode, hkind] at this
                  exact this
              · have hl' : (cs.length != ds.length) = true := by simp [hl]
                simp [hk2, hl']
            · have hk2' : (Kind.list != j.kind) = true := by
                simp only [bne_iff_ne, ne_eq]; exact fun e => hk2 e.symm
              simp [hk2']
          · -- dict
            have hkn : (Kind.dict == Kind.none) = false := rfl
            obtain ⟨hkl, hknd⟩ := hdict (by simp [hkind, Kind.isDict])
            simp only [hkind, hkn, Bool.false_eq_true, if_false, Node.keys_eq]
            simp only [← NInfo.keys_eq]
            by_cases hjd : j.kind.isDict = true
            · obtain ⟨hklb, hkndb⟩ := hdictb hjd
              simp only [hjd, Bool.not_true, Bool.false_eq_true, if_false, Bool.false_or]
              by_cases hks : keySetEq i.keys j.keys = true
              · obtain ⟨hkeq, hmem⟩ := (keySetEq_iff _ _).mp hks
                simp only [hks, Bool.not_true, Bool.false_eq_true, if_false]
                have hfor := subAt_children hsb
                have hcc := childCursors_forest otr ds.reverse (opos - 1) [] (by simpa using hfor)
                simp only [List.length_reverse, List.append_nil] at hcc
                rw [hcc]
                simp only
                have hdch := broadcastDictChildren_enc f (fun a h => bg_all f a h) tr otr pos
                  (opos - (opos - 1 - (STree.sizeL ds.reverse : Int))) j.keys ds (cursorsOf (opos - 1) ds.reverse)
                  hklb hwb hfb2
                  (by
                    intro jj p d h1 h2
                    exact cursorsOf_subAt otr ds.reverse (opos - 1) (by simpa using hfor) jj p d h1 (by simpa using h2))
                  (by rw [cursorsOf_length]; simp)
                  cs.reverse i.keys.reverse (STree.wfL_reverse cs hwa) (STree.fitsL_reverse cs hfa2)
                  (by simp [hkl]) (by intro k hk; exact hmem k (by simpa using hk))
                  (by rw [STree.sizeL_reverse]; omega) (pos - 1) out
                  { i.toNode cs.length (STree.leavesL cs) (STree.sizeL cs + 1) with numLeaves := 0, numNodes := 1 } []
                  (by simpa using subAt_children hsa)
                simp only [NInfo.toNode, hkind] at hdch
                rw [show ∀ (n : Node), out ++ [n] = out ++ n :: [] from fun _ => rfl]
                rw [hdch, pickD_reverse]
                have hpl : cs.length = (pickD i.keys j.keys ds).length := by
                  rw [pickD_length i.keys j.keys ds hklb hmem, hkl]
                rw [STree.lubL_reverse cs _ hpl, STree.lubD_eq j.keys ds hklb i.keys cs hkl hmem]
                cases hlub : STree.lubL cs (pickD i.keys j.keys ds) with
                | none => simp
                | some rc' =>
                  simp only [Option.map_some]
                  have := node_result i j cs ds rc' (STree.lubL_length cs _ rc' hlub).1 out pos opos
                  simp only [NInfo.toNode, hkind] at this
                  exact this
              · simp [hks]
            · simp [hjd]
          · -- namedtuple
            have hkn : (Kind.namedtuple == Kind.none) = false := rfl
            simp only [hkind, hkn, Bool.false_eq_true, if_false]
            by_cases hk2 : j.kind = Kind.namedtuple
            · by_cases hl : cs.length = ds.length
              · have hlf : (cs.length != ds.length) = false := by simp [hl]
                by_cases hdat : i.data = j.data
                · have hdf : (i.data != j.data) = false := by simp [hdat]
                  simp only [hk2, hlf, hdf, bne_self_eq_false, Bool.false_eq_true, if_false, Bool.or_self]
                  have hch := broadcastChildren_enc f (fun a h => bg_all f a h) tr otr pos opos cs.reverse ds.reverse
                    (STree.wfL_reverse cs hwa) (STree.fitsL_reverse cs hfa2) (STree.wfL_reverse ds hwb) (STree.fitsL_reverse ds hfb2)
                    (by simp [hl]) (by rw [STree.sizeL_reverse]; omega) (pos - 1) (opos - 1) out
                    { i.toNode cs.length (STree.leavesL cs) (STree.sizeL cs + 1) with numLeaves := 0, numNodes := 1 } []
                    (by simpa using subAt_children hsa) (by simpa using subAt_children hsb)
                  simp only [List.length_reverse, NInfo.toNode, hkind] at hch
                  rw [show ∀ (n : Node), out ++ [n] = out ++ n :: [] from fun _ => rfl]
                  rw [hch, STree.lubL_reverse cs ds hl]
                  cases hlub : STree.lubL cs ds with
                  | none => simp
                  | some rc' =>
                    simp only [Option.map_some]
                    have := node_result i j cs ds rc' (STree.lubL_length cs ds rc' hlub).1 out pos opos
                    simp only [NInfo.toNode, hkind] at this
                    exact this
                · have hdt : (i.data != j.data) = true := by simp [hdat]
                  simp [hk2, hlf, hdt]
              · have hl' : (cs.length != ds.length) = true := by simp [hl]
                simp [hk2, hl']
            · have hk2' : (Kind.namedtuple != j.kind) = true := by
                simp only [bne_iff_ne, ne_eq]; exact fun e => hk2 e.symm
              simp [hk2']
          · -- ordereddict
            have hkn : (Kind.ordereddict == Kind.none) = false := rfl
            obtain ⟨hkl, hknd⟩ := hdict (by simp [hkind, Kind.isDict])
            simp only [hkind, hkn, Bool.false_eq_true, if_false, Node.keys_eq]
            simp only [← NInfo.keys_eq]
            by_cases hjd : j.kind.isDict = true
            · obtain ⟨hklb, hkndb⟩ := hdictb hjd
              simp only [hjd, Bool.not_true, Bool.false_eq_true, if_false, Bool.false_or]
              by_cases hks : keySetEq i.keys j.keys = true
              · obtain ⟨hkeq, hmem⟩ := (keySetEq_iff _ _).mp hks
                simp only [hks, Bool.not_true, Bool.false_eq_true, if_false]
                have hfor := subAt_children hsb
                have hcc := childCursors_forest otr ds.reverse (opos - 1) [] (by simpa using hfor)
                simp only [List.length_reverse, List.append_nil] at hcc
                rw [hcc]
                simp only
                have hdch := broadcastDictChildren_enc f (fun a h => bg_all f a h) tr otr pos
                  (opos - (opos - 1 - (STree.sizeL ds.reverse : Int))) j.keys ds (cursorsOf (opos - 1) ds.reverse)
                  hklb hwb hfb2
                  (by
                    intro jj p d h1 h2
                    exact cursorsOf_subAt otr ds.reverse (opos - 1) (by simpa using hfor) jj p d h1 (by simpa using h2))
                  (by rw [cursorsOf_length]; simp)
                  cs.reverse i.keys.reverse (STree.wfL_reverse cs hwa) (STree.fitsL_reverse cs hfa2)
                  (by simp [hkl]) (by intro k hk; exact hmem k (by simpa using hk))
                  (by rw [STree.sizeL_reverse]; omega) (pos - 1) out
                  { i.toNode cs.length (STree.leavesL cs) (STree.sizeL cs + 1) with numLeaves := 0, numNodes := 1 } []
                  (by simpa using subAt_children hsa)
                simp only [NInfo.toNode, hkind] at hdch
                rw [show ∀ (n : Node), out ++ [n] = out ++ n :: [] from fun _ => rfl]
                rw [hdch, pickD_reverse]
                have hpl : cs.length = (pickD i.keys j.keys ds).length := by
                  rw [pickD_length i.keys j.keys ds hklb hmem, hkl]
                rw [STree.lubL_reverse cs _ hpl, STree.lubD_eq j.keys ds hklb i.keys cs hkl hmem]
                cases hlub : STree.lubL cs (pickD i.keys j.keys ds) with
                | none => simp
                | some rc' =>
                  simp only [Option.map_some]
                  have := node_result i j cs ds rc' (STree.lubL_length cs _ rc' hlub).1 out pos opos
                  simp only [NInfo.toNode, hkind] at this
                  exact this
              · simp [hks]
            · simp [hjd]
          · -- defaultdict
            have hkn : (Kind.defaultdict == Kind.none) = false := rfl
            obtain ⟨hkl, hknd⟩ := hdict (by simp [hkind, Kind.isDict])
            simp only [hkind, hkn, Bool.false_eq_true, if_false, Node.keys_eq]
            simp only [← NInfo.keys_eq]
            by_cases hjd : j.kind.isDict = true
            · obtain ⟨hklb, hkndb⟩ := hdictb hjd
              simp only [hjd, Bool.not_true, Bool.false_eq_true, if_false, Bool.false_or]
              by_cases hks : keySetEq i.keys j.keys = true
              · obtain ⟨hkeq, hmem⟩ := (keySetEq_iff _ _).mp hks
                simp only [hks, Bool.not_true, Bool.false_eq_true, if_false]
                have hfor := subAt_children hsb
                have hcc := childCursors_forest otr ds.reverse (opos - 1) [] (by simpa using hfor)
                simp only [List.length_reverse, List.append_nil] at hcc
                rw [hcc]
                simp only
                have hdch := broadcastDictChildren_enc f (fun a h => bg_all f a h) tr otr pos
                  (opos - (opos - 1 - (STree.sizeL ds.reverse : Int))) j.keys ds (cursorsOf (opos - 1) ds.reverse)
                  hklb hwb hfb2
                  (by
                    intro jj p d h1 h2
                    exact cursorsOf_subAt otr ds.reverse (opos - 1) (by simpa using hfor) jj p d h1 (by simpa using h2))
                  (by rw [cursorsOf_length]; simp)
                  cs.reverse i.keys.reverse (STree.wfL_reverse cs hwa) (STree.fitsL_reverse cs hfa2)
                  (by simp [hkl]) (by intro k hk; exact hmem k (by simpa using hk))
                  (by rw [STree.sizeL_reverse]; omega) (pos - 1) out
                  { i.toNode cs.length (STree.leavesL cs) (STree.sizeL cs + 1) with numLeaves := 0, numNodes := 1 } []
                  (by simpa using subAt_children hsa)
                simp only [NInfo.toNode, hkind] at hdch
                rw [show ∀ (n : Node), out ++ [n] = out ++ n :: [] from fun _ => rfl]
                rw [hdch, pickD_reverse]
                have hpl : cs.length = (pickD i.keys j.keys ds).length := by
                  rw [pickD_length i.keys j.keys ds hklb hmem, hkl]
                rw [STree.lubL_reverse cs _ hpl, STree.lubD_eq j.keys ds hklb i.keys cs hkl hmem]
                cases hlub : STree.lubL cs (pickD i.keys j.keys ds) with
                | none => simp
                | some rc' =>
                  simp only [Option.map_some]
                  have := node_result i j cs ds rc' (STree.lubL_length cs _ rc' hlub).1 out pos opos
                  simp only [NInfo.toNode, hkind] at this
                  exact this
              · simp [hks]
            · simp [hjd]
          · -- deque
            have hkn : (Kind.deque == Kind.none) = false := rfl
            simp only [hkind, hkn, Bool.false_eq_true, if_false]
            by_cases hk2 : j.kind = Kind.deque
            · by_cases hl : cs.length = ds.length
              · have hlf : (cs.length != ds.length) = false := by simp [hl]
                simp only [hk2, hlf, bne_self_eq_false, Bool.false_eq_true, if_false, Bool.or_self]
                have hch := broadcastChildren_enc f (fun a h => bg_all f a h) tr otr pos opos cs.reverse ds.reverse
                  (STree.wfL_reverse cs hwa) (STree.fitsL_reverse cs hfa2) (STree.wfL_reverse ds hwb) (STree.fitsL_reverse ds hfb2)
                  (by simp [hl]) (by rw [STree.sizeL_reverse]; omega) (pos - 1) (opos - 1) out
                  { i.toNode cs.length (STree.leavesL cs) (STree.sizeL cs + 1) with numLeaves := 0, numNodes := 1 } []
                  (by simpa using subAt_children hsa) (by simpa using subAt_children hsb)
                simp only [List.length_reverse, NInfo.toNode, hkind] at hch
                rw [show ∀ (n : Node), out ++ [n] = out ++ n :: [] from fun _ => rfl]
                rw [hch, STree.lubL_reverse cs ds hl]
                cases hlub : STree.lubL cs ds with
                | none => simp
                | some rc' =>
                  simp only [Option.map_some]
                  have := node_result i j cs ds rc' (STree.lubL_length cs ds rc' hlub).1 out pos opos
                  simp only [NInfo.toNode, hkind] at this
                  exact this
              · have hl' : (cs.length != ds.length) = true := by simp [hl]
                simp [hk2, hl']
            · have hk2' : (Kind.deque != j.kind) = true := by
                simp only [bne_iff_ne, ne_eq]; exact fun e => hk2 e.symm
              simp [hk2']
          · -- structseq
            have hkn : (Kind.structseq == Kind.none) = false := rfl
            simp only [hkind, hkn, Bool.false_eq_true, if_false]
            by_cases hk2 : j.kind = Kind.structseq
            · by_cases hl : cs.length = ds.length
              · have hlf : (cs.length != ds.length) = false := by simp [hl]
                by_cases hdat : i.data = j.data
                · have hdf : (i.data != j.data) = false := by simp [hdat]
                  simp only [hk2, hlf, hdf, bne_self_eq_false, Bool.false_eq_true, if_false, Bool.or_self]
                  have hch := broadcastChildren_enc f (fun a h => bg_all f a h) tr otr pos opos cs.reverse ds.reverse
                    (STree.wfL_reverse cs hwa) (STree.fitsL_reverse cs hfa2) (STree.wfL_reverse ds hwb) (STree.fitsL_reverse ds hfb2)
                    (by simp [hl]) (by rw [STree.sizeL_reverse]; omega) (pos - 1) (opos - 1) out
                    { i.toNode cs.length (STree.leavesL cs) (STree.sizeL cs + 1) with numLeaves := 0, numNodes := 1 } []
                    (by simpa using subAt_children hsa) (by simpa using subAt_children hsb)
                  simp only [List.length_reverse, NInfo.toNode, hkind] at hch
                  rw [show ∀ (n : Node), out ++ [n] = out ++ n :: [] from fun _ => rfl]
                  rw [hch, STree.lubL_reverse cs ds hl]
                  cases hlub : STree.lubL cs ds with
                  | none => simp
                  | some rc' =>
                    simp only [Option.map_some]
                    have := node_result i j cs ds rc' (STree.lubL_length cs ds rc' hlub).1 out pos opos
                    simp only [NInfo.toNode, hkind] at this
                    exact this
                · have hdt : (i.data != j.data) = true := by simp [hdat]
                  simp [hk2, hlf, hdt]
              · have hl' : (cs.length != ds.length) = true := by simp [hl]
                simp [hk2, hl']
            · have hk2' : (Kind.structseq != j.kind) = true := by
                simp only [bne_iff_ne, ne_eq]; exact fun e => hk2 e.symm
              simp [hk2']

/-- the outcome of broadcasting two shapes: `ValueError` on a conflict, else the merged treespec -/
def bcastSpec (a b : STree) (nil : Bool) (ns : String) : Except Err Spec :=
  match a.lub b with
  | Option.none => .error .value
  | some c => .ok (c.spec nil ns)

/-- **`broadcast_to_common_suffix` on encodings computes the tree-level least common suffix**: `ValueError`
exactly when the shapes conflict (or the options do), otherwise the encoding of `lub a b` -/
theorem broadcast_enc (a b : STree) (ha : a.wf = true) (hfa : a.fitsT = true) (hb : b.wf = true)
    (hfb : b.fitsT = true) (nil nil' : Bool) (ns ns' : String) :
    broadcast (a.spec nil ns) (b.spec nil' ns') =
      if nil != nil' then .error .value
      else if !nsCompatible ns ns' then .error .value
      else bcastSpec a b nil (mergeNs ns ns') := by
  unfold broadcast bcastSpec
  simp only [STree.spec_sane, Bool.not_true, Bool.or_self, Bool.false_eq_true, if_false]
  simp only [STree.spec]
  by_cases hn : nil = nil'
  · subst hn
    simp only [bne_self_eq_false, Bool.false_eq_true, if_false]
    by_cases hc : nsCompatible ns ns' = true
    · simp only [hc, Bool.not_true, Bool.false_eq_true, if_false, if_true]
      have hgo := bg_all (a.enc.length + b.enc.length + 2) a (by rw [STree.enc_length]; omega) ha hfa b hb hfb
        a.enc ((a.enc.length : Int) - 1) b.enc ((b.enc.length : Int) - 1) [] (subAt_whole a) (subAt_whole b)
      rw [hgo, goSpec]
      cases hl : a.lub b with
      | none => rfl
      | some c =>
        simp only [List.nil_append, STree.renc, List.reverse_reverse, STree.enc_length, bne_self_eq_false,
          Bool.or_self, Bool.false_eq_true, if_false]
        have hs := STree.spec_sane c nil (mergeNs ns ns')
        have h1 := STree.spec_numNodes c nil (mergeNs ns ns')
        have h2 := STree.spec_numLeaves c nil (mergeNs ns ns')
        simp only [STree.spec] at hs h1 h2
        simp [hs, h1, h2]
    · simp [hc]
  · simp [hn]

end Optree
