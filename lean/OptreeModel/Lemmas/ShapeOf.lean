/-
  `shapeOf`: the shape `flatten` assigns to a tree, as a structural recursion (no depth counter, no
  predicate), and the proof that `flatten` computes exactly its encoding.
-/
import OptreeModel.Lemmas.EncFlatten

namespace Optree

/-- the entries a well-behaved registered flatten function reports for `n` children -/
def customEntries (reg : Reg) (n : Nat) : Option (List Key) :=
  match reg.mode with
  | .two | .none3 => Option.none
  | .named => some (namedEntries n)
  | .shifted => some (shiftedEntries n)

def plainInfo (kind : Kind) (data : NodeData) (okeys : Option (List Key)) : NInfo :=
  ⟨kind, data, Option.none, Option.none, okeys⟩

mutual
def shapeOf (cfg : Cfg) (sorted : Bool) : PyObj → STree
  | .leaf _ _ => .leaf
  | .none => if cfg.noneIsLeaf then .leaf else .node (plainInfo .none .none Option.none) []
  | .tuple xs => .node (plainInfo .tuple .none Option.none) (shapeOfList cfg sorted xs)
  | .list xs => .node (plainInfo .list .none Option.none) (shapeOfList cfg sorted xs)
  | .dict kvs =>
      let items := dictOrder false sorted (shapeOfKVs cfg sorted kvs)
      .node (plainInfo .dict (.keys (items.map (·.1))) (some (kvs.map (·.1)))) (items.map (·.2))
  | .odict kvs =>
      let items := shapeOfKVs cfg sorted kvs
      .node (plainInfo .ordereddict (.keys (items.map (·.1))) Option.none) (items.map (·.2))
  | .ddict f kvs =>
      let items := dictOrder false sorted (shapeOfKVs cfg sorted kvs)
      .node (plainInfo .defaultdict (.ddict f (items.map (·.1))) (some (kvs.map (·.1)))) (items.map (·.2))
  | .deque m xs => .node (plainInfo .deque (.maxlen m) Option.none) (shapeOfList cfg sorted xs)
  | .ntuple cls xs =>
      match cfg.reg.lookup cfg.ns 1 cls with
      | some reg =>
          .node ⟨.custom, .md Option.none, customEntries reg xs.length, some reg, Option.none⟩
            (shapeOfList cfg sorted xs)
      | Option.none => .node (plainInfo .namedtuple (.cls cls) Option.none) (shapeOfList cfg sorted xs)
  | .sseq cls xs =>
      match cfg.reg.lookup cfg.ns 2 cls with
      | some reg =>
          .node ⟨.custom, .md Option.none, customEntries reg xs.length, some reg, Option.none⟩
            (shapeOfList cfg sorted xs)
      | Option.none => .node (plainInfo .structseq (.cls cls) Option.none) (shapeOfList cfg sorted xs)
  | .user cls md _ xs =>
      match cfg.reg.lookup cfg.ns 0 cls with
      | some reg =>
          .node ⟨.custom, .md md, customEntries reg xs.length, some reg, Option.none⟩
            (shapeOfList cfg sorted xs)
      | Option.none => .leaf
def shapeOfList (cfg : Cfg) (sorted : Bool) : List PyObj → List STree
  | [] => []
  | x :: xs => shapeOf cfg sorted x :: shapeOfList cfg sorted xs
def shapeOfKVs (cfg : Cfg) (sorted : Bool) : List (Key × PyObj) → List (Key × STree)
  | [] => []
  | (k, x) :: xs => (k, shapeOf cfg sorted x) :: shapeOfKVs cfg sorted xs
end

theorem shapeOfList_eq (cfg : Cfg) (s : Bool) (xs : List PyObj) :
    shapeOfList cfg s xs = xs.map (shapeOf cfg s) := by
  induction xs with
  | nil => rfl
  | cons x xs ih => simp [shapeOfList, ih]

theorem shapeOfKVs_eq (cfg : Cfg) (s : Bool) (kvs : List (Key × PyObj)) :
    shapeOfKVs cfg s kvs = kvs.map (fun p => (p.1, shapeOf cfg s p.2)) := by
  induction kvs with
  | nil => rfl
  | cons p kvs ih => obtain ⟨k, x⟩ := p; simp [shapeOfKVs, ih]

/-! ### flatten computes the encoding of `shapeOf` -/

/-- the concatenated outputs of the children are the encoding of the listed shapes -/
def OutsAre (rs : List (Except Err FlatOut)) (cs : List STree) : Prop :=
  rs.length = cs.length ∧ ∀ (i : Nat) (o : FlatOut) (c : STree), rs[i]? = some (.ok o) → cs[i]? = some c →
    o.nodes = c.enc ∧ o.leaves.length = c.leaves

theorem seqOuts_shapeOf (rs : List (Except Err FlatOut)) (cs : List STree) (h : OutsAre rs cs)
    (b : FlatOut) (hb : seqOuts rs = .ok b) :
    b.nodes = STree.encL cs ∧ b.leaves.length = STree.leavesL cs := by
  induction rs generalizing cs b with
  | nil =>
    obtain ⟨hl, _⟩ := h
    have : cs = [] := by cases cs with | nil => rfl | cons _ _ => simp at hl
    subst this
    simp [seqOuts] at hb; subst hb
    exact ⟨rfl, rfl⟩
  | cons r rs ih =>
    obtain ⟨hl, hh⟩ := h
    cases cs with
    | nil => simp at hl
    | cons c cs =>
      cases r with
      | error e => simp [seqOuts] at hb
      | ok a =>
        simp only [seqOuts] at hb
        split at hb
        · simp at hb
        · rename_i b' hb'
          simp at hb; subst hb
          have h0 := hh 0 a c (by simp) (by simp)
          have ih' := ih cs ⟨by simpa using hl, fun i o c' h1 h2 => hh (i + 1) o c' (by simpa using h1)
            (by simpa using h2)⟩ b' hb'
          simp [FlatOut.append, STree.encL, STree.leavesL, h0.1, h0.2, ih'.1, ih'.2]

def Sh (cfg : Cfg) (s : Bool) (t : PyObj) : Prop :=
  ∀ d out, flattenGo cfg s d t = .ok out →
    out.nodes = (shapeOf cfg s t).enc ∧ out.leaves.length = (shapeOf cfg s t).leaves

theorem list_outsAre (cfg : Cfg) (s : Bool) (d : Nat) (xs : List PyObj) (ih : ∀ x ∈ xs, Sh cfg s x) :
    OutsAre (flattenList cfg s d xs) (shapeOfList cfg s xs) := by
  rw [flattenList_eq, shapeOfList_eq]
  refine ⟨by simp, ?_⟩
  intro i o c h1 h2
  simp only [List.getElem?_map, Option.map_eq_some_iff] at h1 h2
  obtain ⟨x, hx, hox⟩ := h1
  obtain ⟨x', hx', hc⟩ := h2
  rw [hx] at hx'
  cases hx'
  subst hc
  exact ih x (List.mem_of_getElem? hx) d o hox

/-- helper: `dictOrder` commutes with mapping the values -/
theorem dictOrder_mapVals {α β : Type} (od sorted : Bool) (f : α → β) (items : List (Key × α)) :
    dictOrder od sorted (items.map fun p => (p.1, f p.2)) =
      (dictOrder od sorted items).map fun p => (p.1, f p.2) :=
  dictOrder_map od sorted (fun p => (p.1, f p.2)) (by intro p; rfl) items

theorem kvs_outsAre (cfg : Cfg) (s : Bool) (d : Nat) (kvs : List (Key × PyObj)) (od : Bool)
    (ih : ∀ p ∈ kvs, Sh cfg s p.2) :
    OutsAre ((dictOrder od s (flattenKVs cfg s d kvs)).map (·.2))
      ((dictOrder od s (shapeOfKVs cfg s kvs)).map (·.2)) ∧
    (dictOrder od s (flattenKVs cfg s d kvs)).map (·.1) =
      (dictOrder od s (shapeOfKVs cfg s kvs)).map (·.1) := by
  rw [flattenKVs_eq, shapeOfKVs_eq, dictOrder_mapVals od s (fun x => flattenGo cfg s d x) kvs,
    dictOrder_mapVals od s (fun x => shapeOf cfg s x) kvs]
  simp only [List.map_map, Function.comp_def]
  refine ⟨⟨by simp, ?_⟩, trivial⟩
  intro i o c h1 h2
  simp only [List.getElem?_map, Option.map_eq_some_iff] at h1 h2
  obtain ⟨p, hp, hop⟩ := h1
  obtain ⟨p', hp', hc⟩ := h2
  rw [hp] at hp'
  cases hp'
  subst hc
  have hmem : p ∈ kvs := (dictOrder_perm od s kvs).subset (List.mem_of_getElem? hp)
  exact ih p hmem d o hop

theorem flattenGo_prelude_nopred (cfg : Cfg) (hp : cfg.pred = Option.none) (d : Nat) (x : PyObj)
    (out : FlatOut) (body : Except Err FlatOut)
    (h : (if d > cfg.maxDepth then Except.error Err.recursion
      else match cfg.evalPred x with
        | .error e => .error e
        | .ok true => .ok (leafOut x)
        | .ok false => body) = .ok out) : body = .ok out := by
  have he : cfg.evalPred x = .ok false := by simp [Cfg.evalPred, hp]
  split at h
  · simp at h
  · rw [he] at h; exact h

theorem closeSeq_shape' (rs : List (Except Err FlatOut)) (cs : List STree) (h : OutsAre rs cs)
    (kind : Kind) (arity : Nat) (harity : arity = cs.length) (data : NodeData) (okeys : Option (List Key))
    (out : FlatOut) (ho : closeSeq rs kind arity data Option.none Option.none okeys = .ok out) :
    out.nodes = (STree.node (plainInfo kind data okeys) cs).enc ∧
      out.leaves.length = (STree.node (plainInfo kind data okeys) cs).leaves := by
  unfold closeSeq at ho
  split at ho
  · simp at ho
  · rename_i b hb
    simp at ho; subst ho
    obtain ⟨h1, h2⟩ := seqOuts_shapeOf rs cs h b hb
    subst harity
    simp [FlatOut.close, STree.enc, STree.leaves, NInfo.toNode, plainInfo, h1, h2, STree.encL_length]

theorem customFlatten_shape' (reg : Reg) (md : Option Key) (xs : List PyObj)
    (rs : List (Except Err FlatOut)) (cs : List STree) (h : OutsAre rs cs) (hn : xs.length = cs.length)
    (out : FlatOut) (ho : customFlatten reg (customOutOf reg md .ok xs) rs = .ok out) :
    out.nodes = (STree.node ⟨.custom, .md md, customEntries reg xs.length, some reg, Option.none⟩ cs).enc ∧
      out.leaves.length = STree.leavesL cs := by
  have hrl : rs.length = xs.length := by rw [h.1, hn]
  unfold customFlatten at ho
  split at ho; · simp at ho
  split at ho; · simp at ho
  split at ho; · simp at ho
  rename_i b hb
  obtain ⟨h1, h2⟩ := seqOuts_shapeOf rs cs h b hb
  simp only at ho
  split at ho; · simp at ho
  rename_i ents hents
  simp at ho; subst ho
  have hents' : ents = customEntries reg xs.length := by
    cases hm : reg.mode <;>
      simp [customOutOf, entriesFor, hm, customEntries, namedEntries, shiftedEntries, hrl] at hents ⊢ <;>
      first | exact hents.symm | (rw [← hents])
  subst hents'
  simp [FlatOut.close, STree.enc, NInfo.toNode, h1, h2, STree.encL_length, customOutOf, ← hn, hrl]

mutual
theorem sh (cfg : Cfg) (hp : cfg.pred = Option.none) (s : Bool) : ∀ t : PyObj, t.wf = true → Sh cfg s t
  | .leaf ty uid, _ => by
      intro d out h
      rw [flattenGo] at h
      have h := flattenGo_prelude_nopred cfg hp d _ out _ h
      simp at h; subst h; exact ⟨rfl, rfl⟩
  | .none, _ => by
      intro d out h
      rw [flattenGo] at h
      have h := flattenGo_prelude_nopred cfg hp d _ out _ h
      simp only [shapeOf]
      by_cases hn : cfg.noneIsLeaf = true
      · simp only [hn, if_true] at h ⊢
        simp at h; subst h; exact ⟨rfl, rfl⟩
      · simp only [hn, Bool.false_eq_true, if_false] at h ⊢
        simp at h; subst h
        simp [FlatOut.close, FlatOut.empty, STree.enc, STree.encL, NInfo.toNode, plainInfo, STree.leaves,
          STree.leavesL, STree.sizeL]
  | .tuple xs, hwf => by
      intro d out h
      rw [flattenGo] at h
      have h := flattenGo_prelude_nopred cfg hp d _ out _ h
      simp only [PyObj.wf] at hwf
      exact closeSeq_shape' _ _ (list_outsAre cfg s (d + 1) xs (shList cfg hp s xs hwf)) _ _
        (by simp [shapeOfList_eq]) _ _ out h
  | .list xs, hwf => by
      intro d out h
      rw [flattenGo] at h
      have h := flattenGo_prelude_nopred cfg hp d _ out _ h
      simp only [PyObj.wf] at hwf
      exact closeSeq_shape' _ _ (list_outsAre cfg s (d + 1) xs (shList cfg hp s xs hwf)) _ _
        (by simp [shapeOfList_eq]) _ _ out h
  | .deque m xs, hwf => by
      intro d out h
      rw [flattenGo] at h
      have h := flattenGo_prelude_nopred cfg hp d _ out _ h
      simp only [PyObj.wf, Bool.and_eq_true] at hwf
      exact closeSeq_shape' _ _ (list_outsAre cfg s (d + 1) xs (shList cfg hp s xs hwf.2)) _ _
        (by simp [shapeOfList_eq]) _ _ out h
  | .dict kvs, hwf => by
      intro d out h
      rw [flattenGo] at h
      have h := flattenGo_prelude_nopred cfg hp d _ out _ h
      simp only [PyObj.wf, Bool.and_eq_true] at hwf
      obtain ⟨h1, h2⟩ := kvs_outsAre cfg s (d + 1) kvs false (shKVs cfg hp s kvs hwf.2)
      simp only [shapeOf]
      dsimp only at h
      rw [h2] at h
      exact closeSeq_shape' _ _ h1 _ _
        (by simp [(dictOrder_perm false s _).length_eq, shapeOfKVs_eq]) _ _ out h
  | .odict kvs, hwf => by
      intro d out h
      rw [flattenGo] at h
      have h := flattenGo_prelude_nopred cfg hp d _ out _ h
      simp only [PyObj.wf, Bool.and_eq_true] at hwf
      obtain ⟨h1, h2⟩ := kvs_outsAre cfg s (d + 1) kvs true (shKVs cfg hp s kvs hwf.2)
      simp only [dictOrder, Bool.not_true, Bool.false_and, Bool.false_eq_true, if_false] at h1 h2
      simp only [shapeOf]
      dsimp only at h
      rw [h2] at h
      exact closeSeq_shape' _ _ h1 _ _ (by simp [shapeOfKVs_eq]) _ _ out h
  | .ddict f kvs, hwf => by
      intro d out h
      rw [flattenGo] at h
      have h := flattenGo_prelude_nopred cfg hp d _ out _ h
      simp only [PyObj.wf, Bool.and_eq_true] at hwf
      obtain ⟨h1, h2⟩ := kvs_outsAre cfg s (d + 1) kvs false (shKVs cfg hp s kvs hwf.2)
      simp only [shapeOf]
      dsimp only at h
      rw [h2] at h
      exact closeSeq_shape' _ _ h1 _ _
        (by simp [(dictOrder_perm false s _).length_eq, shapeOfKVs_eq]) _ _ out h
  | .ntuple cls xs, hwf => by
      intro d out h
      rw [flattenGo] at h
      have h := flattenGo_prelude_nopred cfg hp d _ out _ h
      simp only [PyObj.wf] at hwf
      simp only [shapeOf]
      split at h
      · rename_i reg hl
        simp only [hl]
        have := customFlatten_shape' reg Option.none xs _ _
          (list_outsAre cfg s (d + 1) xs (shList cfg hp s xs hwf)) (by simp [shapeOfList_eq]) out h
        simpa [STree.leaves] using this
      · rename_i hl
        simp only [hl]
        exact closeSeq_shape' _ _ (list_outsAre cfg s (d + 1) xs (shList cfg hp s xs hwf)) _ _
          (by simp [shapeOfList_eq]) _ _ out h
  | .sseq cls xs, hwf => by
      intro d out h
      rw [flattenGo] at h
      have h := flattenGo_prelude_nopred cfg hp d _ out _ h
      simp only [PyObj.wf] at hwf
      simp only [shapeOf]
      split at h
      · rename_i reg hl
        simp only [hl]
        have := customFlatten_shape' reg Option.none xs _ _
          (list_outsAre cfg s (d + 1) xs (shList cfg hp s xs hwf)) (by simp [shapeOfList_eq]) out h
        simpa [STree.leaves] using this
      · rename_i hl
        simp only [hl]
        exact closeSeq_shape' _ _ (list_outsAre cfg s (d + 1) xs (shList cfg hp s xs hwf)) _ _
          (by simp [shapeOfList_eq]) _ _ out h
  | .user cls md q xs, hwf => by
      intro d out h
      rw [flattenGo] at h
      have h := flattenGo_prelude_nopred cfg hp d _ out _ h
      simp only [PyObj.wf, Bool.and_eq_true, beq_iff_eq] at hwf
      obtain ⟨hq, hwf⟩ := hwf
      subst hq
      simp only [shapeOf]
      split at h
      · rename_i reg hl
        simp only [hl]
        have := customFlatten_shape' reg md xs _ _
          (list_outsAre cfg s (d + 1) xs (shList cfg hp s xs hwf)) (by simp [shapeOfList_eq]) out h
        simpa [STree.leaves] using this
      · rename_i hl
        simp only [hl]
        simp at h; subst h; exact ⟨rfl, rfl⟩
theorem shList (cfg : Cfg) (hp : cfg.pred = Option.none) (s : Bool) : ∀ xs : List PyObj,
    PyObj.wfList xs = true → ∀ x ∈ xs, Sh cfg s x
  | [], _ => by intro x hx; simp at hx
  | y :: ys, hwf => by
      simp only [PyObj.wfList, Bool.and_eq_true] at hwf
      intro x hx
      simp only [List.mem_cons] at hx
      rcases hx with hx | hx
      · subst hx; exact sh cfg hp s x hwf.1
      · exact shList cfg hp s ys hwf.2 x hx
theorem shKVs (cfg : Cfg) (hp : cfg.pred = Option.none) (s : Bool) : ∀ kvs : List (Key × PyObj),
    PyObj.wfKVs kvs = true → ∀ p ∈ kvs, Sh cfg s p.2
  | [], _ => by intro p hp; simp at hp
  | (k, y) :: ys, hwf => by
      simp only [PyObj.wfKVs, Bool.and_eq_true] at hwf
      intro p hp'
      simp only [List.mem_cons] at hp'
      rcases hp' with hp' | hp'
      · subst hp'; exact sh cfg hp s y hwf.1
      · exact shKVs cfg hp s ys hwf.2 p hp'
end

/-- **`tree_structure(t)` is the encoding of `shapeOf t`** (no predicate, well-behaved flatten functions) -/
theorem flatten_shapeOf (cfg : Cfg) (hp : cfg.pred = Option.none) (t : PyObj) (hwf : t.wf = true)
    (ls : List PyObj) (sp : Spec) (h : flatten cfg t = .ok (ls, sp)) :
    sp = (shapeOf cfg (!cfg.insertionOrdered) t).spec cfg.noneIsLeaf sp.ns ∧
      ls.length = (shapeOf cfg (!cfg.insertionOrdered) t).leaves := by
  unfold flatten at h
  simp only at h
  split at h
  · simp at h
  · rename_i out ho
    simp only [Except.ok.injEq, Prod.mk.injEq] at h
    obtain ⟨h1, h2⟩ := h
    obtain ⟨hn, hl⟩ := sh cfg hp _ t hwf 0 out ho
    refine ⟨?_, ?_⟩
    · subst h2; simp [STree.spec, hn]
    · subst h1; exact hl

end Optree
