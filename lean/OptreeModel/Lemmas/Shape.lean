/-
  Every node record produced by `flattenGo` has fields that fit its kind (helper for C11, C08).
-/
import OptreeModel.Lemmas.Roundtrip
import OptreeModel.Properties.C11

namespace Optree

def AllShapeOk (out : FlatOut) : Prop := ∀ n ∈ out.nodes, n.shapeOk = true

theorem seqOuts_shape (rs : List (Except Err FlatOut))
    (h : ∀ r ∈ rs, ∀ o, r = .ok o → AllShapeOk o) (b : FlatOut) (hb : seqOuts rs = .ok b) :
    AllShapeOk b := by
  induction rs generalizing b with
  | nil =>
    simp [seqOuts] at hb; subst hb
    intro n hn; simp [FlatOut.empty] at hn
  | cons r rs ih =>
    cases r with
    | error e => simp [seqOuts] at hb
    | ok a =>
      simp only [seqOuts] at hb
      split at hb
      · simp at hb
      · rename_i b' hb'
        simp at hb; subst hb
        intro n hn
        simp only [FlatOut.append, List.mem_append] at hn
        rcases hn with hn | hn
        · exact h (.ok a) (by simp) a rfl n hn
        · exact ih (fun q hq => h q (by simp [hq])) b' hb' n hn

theorem close_shape (body : FlatOut) (hb : AllShapeOk body) (node : Node) (hn : node.shapeOk = true)
    (out : FlatOut) (ho : out.nodes = body.nodes ++ [node]) : AllShapeOk out := by
  intro n hmem
  rw [ho, List.mem_append] at hmem
  rcases hmem with h | h
  · exact hb n h
  · simp at h; subst h; exact hn

theorem closeSeq_shape (rs : List (Except Err FlatOut))
    (h : ∀ r ∈ rs, ∀ o, r = .ok o → AllShapeOk o) (kind : Kind) (arity : Nat) (data : NodeData)
    (okeys : Option (List Key))
    (hn : ∀ nl nn, (Node.mk kind arity data Option.none Option.none nl nn okeys).shapeOk = true)
    (out : FlatOut) (ho : closeSeq rs kind arity data Option.none Option.none okeys = .ok out) :
    AllShapeOk out := by
  unfold closeSeq at ho
  split at ho
  · simp at ho
  · rename_i b hb
    simp at ho; subst ho
    exact close_shape b (seqOuts_shape rs h b hb) _ (hn _ _) _ rfl

theorem customFlatten_shape (reg : Reg) (co : CustomOut) (rs : List (Except Err FlatOut))
    (h : ∀ r ∈ rs, ∀ o, r = .ok o → AllShapeOk o) (out : FlatOut)
    (ho : customFlatten reg co rs = .ok out) : AllShapeOk out := by
  unfold customFlatten at ho
  split at ho; · simp at ho
  split at ho; · simp at ho
  split at ho; · simp at ho
  rename_i b hb
  simp only at ho
  split at ho; · simp at ho
  simp at ho; subst ho
  exact close_shape b (seqOuts_shape rs h b hb) _ (by simp [Node.shapeOk]) _ rfl

def Sobj (cfg : Cfg) (s : Bool) (t : PyObj) : Prop :=
  ∀ d out, flattenGo cfg s d t = .ok out → AllShapeOk out

theorem leafOut_shape (x : PyObj) : AllShapeOk (leafOut x) := by
  intro n hn; simp [leafOut] at hn; subst hn; decide

theorem list_results_shape (cfg : Cfg) (s : Bool) (d : Nat) (xs : List PyObj)
    (ih : ∀ x ∈ xs, Sobj cfg s x) :
    ∀ r ∈ flattenList cfg s d xs, ∀ o, r = .ok o → AllShapeOk o := by
  rw [flattenList_eq]
  intro r hr o ho
  simp only [List.mem_map] at hr
  obtain ⟨x, hx, rfl⟩ := hr
  exact ih x hx d o ho

theorem kvs_results_shape (cfg : Cfg) (s : Bool) (d : Nat) (kvs : List (Key × PyObj)) (od : Bool)
    (ih : ∀ p ∈ kvs, Sobj cfg s p.2) :
    ∀ r ∈ (dictOrder od s (flattenKVs cfg s d kvs)).map (·.2), ∀ o, r = .ok o → AllShapeOk o := by
  intro r hr o ho
  simp only [List.mem_map] at hr
  obtain ⟨q, hq, rfl⟩ := hr
  have hq' := (dictOrder_perm od s _).subset hq
  rw [flattenKVs_eq] at hq'
  simp only [List.mem_map] at hq'
  obtain ⟨p, hp, rfl⟩ := hq'
  exact ih p hp d o ho

mutual
theorem sobj (cfg : Cfg) (s : Bool) : ∀ t : PyObj, Sobj cfg s t
  | .leaf ty uid => by
      intro d out h
      rw [flattenGo] at h
      rcases flattenGo_prelude cfg s d _ out _ h with h | h
      · subst h; exact leafOut_shape _
      · simp at h; subst h; exact leafOut_shape _
  | .none => by
      intro d out h
      rw [flattenGo] at h
      rcases flattenGo_prelude cfg s d _ out _ h with h | h
      · subst h; exact leafOut_shape _
      · split at h
        · simp at h; subst h; exact leafOut_shape _
        · simp at h; subst h
          intro n hn; simp [FlatOut.close, FlatOut.empty] at hn; subst hn; decide
  | .tuple xs => by
      intro d out h
      rw [flattenGo] at h
      rcases flattenGo_prelude cfg s d _ out _ h with h | h
      · subst h; exact leafOut_shape _
      · exact closeSeq_shape _ (list_results_shape cfg s (d + 1) xs (slist cfg s xs)) _ _ _ _
          (by intro nl nn; simp [Node.shapeOk]) out h
  | .list xs => by
      intro d out h
      rw [flattenGo] at h
      rcases flattenGo_prelude cfg s d _ out _ h with h | h
      · subst h; exact leafOut_shape _
      · exact closeSeq_shape _ (list_results_shape cfg s (d + 1) xs (slist cfg s xs)) _ _ _ _
          (by intro nl nn; simp [Node.shapeOk]) out h
  | .deque m xs => by
      intro d out h
      rw [flattenGo] at h
      rcases flattenGo_prelude cfg s d _ out _ h with h | h
      · subst h; exact leafOut_shape _
      · exact closeSeq_shape _ (list_results_shape cfg s (d + 1) xs (slist cfg s xs)) _ _ _ _
          (by intro nl nn; simp [Node.shapeOk]) out h
  | .dict kvs => by
      intro d out h
      rw [flattenGo] at h
      rcases flattenGo_prelude cfg s d _ out _ h with h | h
      · subst h; exact leafOut_shape _
      · exact closeSeq_shape _ (kvs_results_shape cfg s (d + 1) kvs false (skvs cfg s kvs)) _ _ _ _
          (by intro nl nn; simp [Node.shapeOk]) out h
  | .odict kvs => by
      intro d out h
      rw [flattenGo] at h
      rcases flattenGo_prelude cfg s d _ out _ h with h | h
      · subst h; exact leafOut_shape _
      · have := kvs_results_shape cfg s (d + 1) kvs true (skvs cfg s kvs)
        simp only [dictOrder, Bool.not_true, Bool.false_and, Bool.false_eq_true, if_false] at this
        exact closeSeq_shape _ this _ _ _ _ (by intro nl nn; simp [Node.shapeOk]) out h
  | .ddict f kvs => by
      intro d out h
      rw [flattenGo] at h
      rcases flattenGo_prelude cfg s d _ out _ h with h | h
      · subst h; exact leafOut_shape _
      · exact closeSeq_shape _ (kvs_results_shape cfg s (d + 1) kvs false (skvs cfg s kvs)) _ _ _ _
          (by intro nl nn; simp [Node.shapeOk]) out h
  | .ntuple cls xs => by
      intro d out h
      rw [flattenGo] at h
      rcases flattenGo_prelude cfg s d _ out _ h with h | h
      · subst h; exact leafOut_shape _
      · split at h
        · exact customFlatten_shape _ _ _ (list_results_shape cfg s (d + 1) xs (slist cfg s xs)) out h
        · exact closeSeq_shape _ (list_results_shape cfg s (d + 1) xs (slist cfg s xs)) _ _ _ _
            (by intro nl nn; simp [Node.shapeOk]) out h
  | .sseq cls xs => by
      intro d out h
      rw [flattenGo] at h
      rcases flattenGo_prelude cfg s d _ out _ h with h | h
      · subst h; exact leafOut_shape _
      · split at h
        · exact customFlatten_shape _ _ _ (list_results_shape cfg s (d + 1) xs (slist cfg s xs)) out h
        · exact closeSeq_shape _ (list_results_shape cfg s (d + 1) xs (slist cfg s xs)) _ _ _ _
            (by intro nl nn; simp [Node.shapeOk]) out h
  | .user cls md q xs => by
      intro d out h
      rw [flattenGo] at h
      rcases flattenGo_prelude cfg s d _ out _ h with h | h
      · subst h; exact leafOut_shape _
      · split at h
        · exact customFlatten_shape _ _ _ (list_results_shape cfg s (d + 1) xs (slist cfg s xs)) out h
        · simp at h; subst h; exact leafOut_shape _
theorem slist (cfg : Cfg) (s : Bool) : ∀ xs : List PyObj, ∀ x ∈ xs, Sobj cfg s x
  | [] => by intro x hx; simp at hx
  | y :: ys => by
      intro x hx
      simp only [List.mem_cons] at hx
      rcases hx with hx | hx
      · subst hx; exact sobj cfg s x
      · exact slist cfg s ys x hx
theorem skvs (cfg : Cfg) (s : Bool) : ∀ kvs : List (Key × PyObj), ∀ p ∈ kvs, Sobj cfg s p.2
  | [] => by intro p hp; simp at hp
  | (k, y) :: ys => by
      intro p hp
      simp only [List.mem_cons] at hp
      rcases hp with hp | hp
      · subst hp; exact sobj cfg s y
      · exact skvs cfg s ys p hp
end

end Optree
