/-
  Basic facts about the post-order encoding `STree.enc` (L0 ↔ L1 bridge).
-/
import OptreeModel.Model.STree

namespace Optree

/-! ### sizes -/

mutual
theorem STree.enc_length : ∀ s : STree, s.enc.length = s.size
  | .leaf => by simp [STree.enc, STree.size]
  | .node i cs => by simp [STree.enc, STree.size, STree.encL_length cs]
theorem STree.encL_length : ∀ cs : List STree, (STree.encL cs).length = STree.sizeL cs
  | [] => by simp [STree.encL, STree.sizeL]
  | c :: cs => by simp [STree.encL, STree.sizeL, STree.enc_length c, STree.encL_length cs]
end

theorem STree.size_pos (s : STree) : 0 < s.size := by
  cases s <;> simp [STree.size]

theorem STree.root_numNodes (s : STree) : s.root.numNodes = s.size := by
  cases s <;> simp [STree.root, STree.size, Node.leaf, NInfo.toNode]

theorem STree.root_numLeaves (s : STree) : s.root.numLeaves = s.leaves := by
  cases s <;> simp [STree.root, STree.leaves, Node.leaf, NInfo.toNode]

theorem STree.root_arity_leaf : STree.leaf.root.arity = 0 := rfl

/-- the array is its children's arrays followed by the root record -/
def STree.children : STree → List STree
  | .leaf => []
  | .node _ cs => cs

theorem STree.enc_eq (s : STree) : s.enc = STree.encL s.children ++ [s.root] := by
  cases s <;> simp [STree.enc, STree.encL, STree.children, STree.root]

theorem STree.enc_ne_nil (s : STree) : s.enc ≠ [] := by
  rw [STree.enc_eq]; simp

theorem STree.enc_getLast? (s : STree) : s.enc.getLast? = some s.root := by
  rw [STree.enc_eq]; simp

theorem STree.enc_dropLast (s : STree) : s.enc.dropLast = STree.encL s.children := by
  rw [STree.enc_eq]; simp

theorem STree.encL_append (xs ys : List STree) :
    STree.encL (xs ++ ys) = STree.encL xs ++ STree.encL ys := by
  induction xs with
  | nil => simp [STree.encL]
  | cons x xs ih => simp [STree.encL, ih]

theorem STree.sizeL_append (xs ys : List STree) :
    STree.sizeL (xs ++ ys) = STree.sizeL xs + STree.sizeL ys := by
  induction xs with
  | nil => simp [STree.sizeL]
  | cons x xs ih => simp [STree.sizeL, ih]; omega

theorem STree.leavesL_append (xs ys : List STree) :
    STree.leavesL (xs ++ ys) = STree.leavesL xs + STree.leavesL ys := by
  induction xs with
  | nil => simp [STree.leavesL]
  | cons x xs ih => simp [STree.leavesL, ih]; omega

theorem STree.encL_eq_flatMap (cs : List STree) : STree.encL cs = cs.flatMap STree.enc := by
  induction cs with
  | nil => simp [STree.encL]
  | cons c cs ih => simp [STree.encL, ih]

theorem STree.sizeL_eq_sum (cs : List STree) : STree.sizeL cs = (cs.map STree.size).sum := by
  induction cs with
  | nil => simp [STree.sizeL]
  | cons c cs ih => simp [STree.sizeL, ih]

theorem STree.leavesL_eq_sum (cs : List STree) : STree.leavesL cs = (cs.map STree.leaves).sum := by
  induction cs with
  | nil => simp [STree.leavesL]
  | cons c cs ih => simp [STree.leavesL, ih]

/-! ### the spec of a shape -/

def STree.spec (s : STree) (nil : Bool) (ns : String) : Spec :=
  { nodes := s.enc, noneIsLeaf := nil, ns := ns }

theorem STree.spec_sane (s : STree) (nil : Bool) (ns : String) : (s.spec nil ns).sane = true := by
  simp [STree.spec, Spec.sane, STree.enc_getLast?, STree.root_numNodes, STree.enc_length]

theorem STree.spec_numNodes (s : STree) (nil : Bool) (ns : String) :
    (s.spec nil ns).numNodes = s.size := by
  simp [STree.spec, Spec.numNodes, STree.enc_length]

theorem STree.spec_numLeaves (s : STree) (nil : Bool) (ns : String) :
    (s.spec nil ns).numLeaves = s.leaves := by
  simp [STree.spec, Spec.numLeaves, STree.enc_getLast?, STree.root_numLeaves]

/-! ### the reversed array: root first, then the children last-to-first -/

def STree.renc (s : STree) : List Node := s.enc.reverse

def STree.rencL (cs : List STree) : List Node := (STree.encL cs).reverse

theorem STree.renc_eq (s : STree) : s.renc = s.root :: STree.rencL s.children := by
  simp [STree.renc, STree.rencL, STree.enc_eq s]

theorem STree.rencL_nil : STree.rencL [] = [] := by simp [STree.rencL, STree.encL]

theorem STree.rencL_cons (c : STree) (cs : List STree) :
    STree.rencL (c :: cs) = STree.rencL cs ++ c.renc := by
  simp [STree.rencL, STree.renc, STree.encL]

theorem STree.rencL_append (xs ys : List STree) :
    STree.rencL (xs ++ ys) = STree.rencL ys ++ STree.rencL xs := by
  simp [STree.rencL, STree.encL_append]

theorem STree.renc_length (s : STree) : s.renc.length = s.size := by
  simp [STree.renc, STree.enc_length]

theorem STree.rencL_length (cs : List STree) : (STree.rencL cs).length = STree.sizeL cs := by
  simp [STree.rencL, STree.encL_length]

/-- the reversed forest as a concatenation over the reversed child list -/
theorem STree.rencL_eq_flatten (cs : List STree) :
    STree.rencL cs = (cs.reverse.map STree.renc).flatten := by
  induction cs with
  | nil => simp [STree.rencL_nil]
  | cons c cs ih => simp [STree.rencL_cons, ih]

end Optree
