/-
  The stack machine `unflattenGo` inverts `flattenGo` (helper lemmas for C01).
-/
import OptreeModel.Lemmas.Dict

namespace Optree

/-! ### well-formed objects -/

def maxlenOk (m : Option Nat) (n : Nat) : Bool :=
  match m with
  | Option.none => true
  | some k => decide (n ≤ k)

mutual
/-- dict keys pairwise distinct, deques within their `maxlen`, flatten functions well-behaved -/
def PyObj.wf : PyObj → Bool
  | .leaf _ _ => true
  | .none => true
  | .tuple xs => PyObj.wfList xs
  | .list xs => PyObj.wfList xs
  | .dict kvs => decide ((kvs.map (·.1)).Nodup) && PyObj.wfKVs kvs
  | .odict kvs => decide ((kvs.map (·.1)).Nodup) && PyObj.wfKVs kvs
  | .ddict _ kvs => decide ((kvs.map (·.1)).Nodup) && PyObj.wfKVs kvs
  | .deque m xs => maxlenOk m xs.length && PyObj.wfList xs
  | .ntuple _ xs => PyObj.wfList xs
  | .sseq _ xs => PyObj.wfList xs
  | .user _ _ q xs => (q == Quirk.ok) && PyObj.wfList xs
def PyObj.wfList : List PyObj → Bool
  | [] => true
  | x :: xs => PyObj.wf x && PyObj.wfList xs
def PyObj.wfKVs : List (Key × PyObj) → Bool
  | [] => true
  | (_, x) :: xs => PyObj.wf x && PyObj.wfKVs xs
end

/-- registrations are filed under their own class -/
def Registry.OK (r : Registry) : Prop :=
  ∀ ns ck cls reg, r.lookup ns ck cls = some reg → reg.cls = cls ∧ reg.clsKind = ck

/-! ### the machine invariant -/

/-- running the machine over `out` pushes exactly `ts` -/
def RT (out : FlatOut) (ts : List PyObj) : Prop :=
  ∀ rest ls stack,
    unflattenGo (out.nodes ++ rest) (out.leaves ++ ls) stack = unflattenGo rest ls (ts.reverse ++ stack)

theorem RT_empty : RT FlatOut.empty [] := by
  intro rest ls stack
  simp [FlatOut.empty]

theorem RT_leaf (x : PyObj) : RT (leafOut x) [x] := by
  intro rest ls stack
  simp [leafOut, unflattenGo, Node.leaf]

theorem RT_append {a b : FlatOut} {as bs : List PyObj} (ha : RT a as) (hb : RT b bs) :
    RT (a.append b) (as ++ bs) := by
  intro rest ls stack
  simp only [FlatOut.append, List.append_assoc]
  rw [ha, hb]
  simp [List.reverse_append]

/-- children results that individually satisfy `RT` do so in sequence -/
theorem RT_seq (ps : List (Except Err FlatOut × PyObj))
    (h : ∀ p ∈ ps, ∀ o, p.1 = .ok o → RT o [p.2])
    (b : FlatOut) (hb : seqOuts (ps.map (·.1)) = .ok b) : RT b (ps.map (·.2)) := by
  induction ps generalizing b with
  | nil =>
    simp [seqOuts] at hb
    subst hb
    exact RT_empty
  | cons p ps ih =>
    simp only [List.map_cons] at hb ⊢
    unfold seqOuts at hb
    split at hb
    · simp at hb
    · rename_i a ha
      split at hb
      · simp at hb
      · rename_i b' hb'
        simp at hb
        subst hb
        have h1 := h p (by simp) a ha
        have h2 := ih (fun q hq => h q (by simp [hq])) b' hb'
        have := RT_append h1 h2
        simpa using this

theorem take_reverse_append (xs stack : List PyObj) :
    ((xs.reverse ++ stack).take xs.length).reverse = xs := by
  have : (xs.reverse ++ stack).take xs.length = xs.reverse := by
    rw [List.take_append_of_le_length (by simp)]
    simp [List.take_of_length_le]
  rw [this, List.reverse_reverse]

theorem drop_reverse_append (xs stack : List PyObj) :
    (xs.reverse ++ stack).drop xs.length = stack := by
  have h : xs.length = xs.reverse.length := by simp
  rw [h, List.drop_left]

/-- closing a node whose children were pushed -/
theorem RT_close {body : FlatOut} {xs : List PyObj} (hbody : RT body xs)
    (kind : Kind) (data : NodeData) (entries : Option (List Key)) (custom : Option Reg)
    (okeys : Option (List Key)) (fc : Bool) (t : PyObj)
    (hkind : kind ≠ .leaf)
    (hmk : makeNode { kind := kind, arity := xs.length, data := data, entries := entries,
                      custom := custom, numLeaves := body.leaves.length,
                      numNodes := body.nodes.length + 1, originalKeys := okeys } xs = .ok t) :
    RT (body.close kind xs.length data entries custom okeys fc) [t] := by
  intro rest ls stack
  simp only [FlatOut.close, List.append_assoc, List.singleton_append]
  rw [hbody]
  rw [unflattenGo.eq_def]
  simp only [List.length_append, List.length_reverse]
  have hlt : ¬ (xs.length + stack.length < xs.length) := by omega
  simp only [hlt, if_false]
  rw [take_reverse_append, drop_reverse_append, hmk]
  cases kind <;> simp_all

theorem closeSeq_RT (ps : List (Except Err FlatOut × PyObj))
    (h : ∀ p ∈ ps, ∀ o, p.1 = .ok o → RT o [p.2])
    (kind : Kind) (data : NodeData) (entries : Option (List Key)) (custom : Option Reg)
    (okeys : Option (List Key)) (t : PyObj) (hkind : kind ≠ .leaf) (n : Nat) (hn : n = ps.length)
    (hmk : ∀ nl nn, makeNode (Node.mk kind n data entries custom nl nn okeys) (ps.map (·.2)) = .ok t)
    (out : FlatOut)
    (hout : closeSeq (ps.map (·.1)) kind n data entries custom okeys = .ok out) :
    RT out [t] := by
  subst hn
  unfold closeSeq at hout
  split at hout
  · simp at hout
  · rename_i b hb
    simp at hout
    subst hout
    have hb' := RT_seq ps h b hb
    have := RT_close hb' kind data entries custom okeys false t hkind
      (by simpa using hmk b.leaves.length (b.nodes.length + 1))
    simpa using this

end Optree

namespace Optree

theorem flattenList_eq (cfg : Cfg) (s : Bool) (d : Nat) (xs : List PyObj) :
    flattenList cfg s d xs = xs.map (flattenGo cfg s d) := by
  induction xs with
  | nil => simp [flattenList]
  | cons x xs ih => simp [flattenList, ih]

theorem flattenKVs_eq (cfg : Cfg) (s : Bool) (d : Nat) (kvs : List (Key × PyObj)) :
    flattenKVs cfg s d kvs = kvs.map (fun p => (p.1, flattenGo cfg s d p.2)) := by
  induction kvs with
  | nil => simp [flattenKVs]
  | cons p kvs ih =>
    obtain ⟨k, x⟩ := p
    simp [flattenKVs, ih]

/-- the statement proved by mutual induction: a successful `flattenGo` of `t` is undone by the
stack machine -/
def Pobj (cfg : Cfg) (s : Bool) (t : PyObj) : Prop :=
  ∀ d out, flattenGo cfg s d t = .ok out → RT out [t]

theorem pobj_tuple_like (cfg : Cfg) (s : Bool) (xs : List PyObj)
    (ih : ∀ x ∈ xs, Pobj cfg s x) (d : Nat)
    (kind : Kind) (data : NodeData) (t : PyObj) (hkind : kind ≠ .leaf)
    (hmk : ∀ nl nn, makeNode (Node.mk kind xs.length data Option.none Option.none nl nn Option.none) xs
      = .ok t)
    (out : FlatOut)
    (h : closeSeq (flattenList cfg s d xs) kind xs.length data Option.none Option.none Option.none
      = .ok out) : RT out [t] := by
  rw [flattenList_eq] at h
  let ps := xs.map fun x => (flattenGo cfg s d x, x)
  have h1 : ps.map (·.1) = xs.map (flattenGo cfg s d) := by simp [ps, List.map_map, Function.comp_def]
  have h2 : ps.map (·.2) = xs := by simp [ps, List.map_map, Function.comp_def]
  rw [← h1] at h
  apply closeSeq_RT ps _ kind data Option.none Option.none Option.none t hkind xs.length
    (by simp [ps]) (by intro nl nn; rw [h2]; exact hmk nl nn) out h
  intro p hp o ho
  simp only [ps, List.mem_map] at hp
  obtain ⟨x, hx, rfl⟩ := hp
  exact ih x hx d o ho

end Optree

namespace Optree

theorem pobj_dict_like (cfg : Cfg) (s : Bool) (kvs perm : List (Key × PyObj))
    (hp : perm.Perm kvs) (ih : ∀ p ∈ kvs, Pobj cfg s p.2) (d : Nat)
    (kind : Kind) (mkData : List Key → NodeData) (okeys : Option (List Key)) (t : PyObj)
    (hkind : kind ≠ .leaf)
    (hmk : ∀ nl nn, makeNode (Node.mk kind kvs.length (mkData (perm.map (·.1))) Option.none
      Option.none nl nn okeys) (perm.map (·.2)) = .ok t)
    (out : FlatOut)
    (h : closeSeq ((perm.map fun p => (p.1, flattenGo cfg s d p.2)).map (·.2)) kind kvs.length
      (mkData ((perm.map fun p => (p.1, flattenGo cfg s d p.2)).map (·.1))) Option.none Option.none
      okeys = .ok out) : RT out [t] := by
  let ps := perm.map fun p => (flattenGo cfg s d p.2, p.2)
  have h1 : ps.map (·.1) = (perm.map fun p => (p.1, flattenGo cfg s d p.2)).map (·.2) := by
    simp [ps, List.map_map, Function.comp_def]
  have h2 : ps.map (·.2) = perm.map (·.2) := by simp [ps, List.map_map, Function.comp_def]
  have h3 : (perm.map fun p => (p.1, flattenGo cfg s d p.2)).map (·.1) = perm.map (·.1) := by
    simp [List.map_map, Function.comp_def]
  rw [← h1, h3] at h
  apply closeSeq_RT ps _ kind (mkData (perm.map (·.1))) Option.none Option.none okeys t hkind
    kvs.length (by simp [ps, hp.length_eq]) (by intro nl nn; rw [h2]; exact hmk nl nn) out h
  intro p hpm o ho
  simp only [ps, List.mem_map] at hpm
  obtain ⟨q, hq, rfl⟩ := hpm
  exact ih q (hp.subset hq) d o ho

end Optree

namespace Optree

theorem namedEntries_length (n : Nat) : (namedEntries n).length = n := by simp [namedEntries]
theorem shiftedEntries_length (n : Nat) : (shiftedEntries n).length = n := by simp [shiftedEntries]

/-- for a well-behaved flatten function (`quirk = ok`) the custom case is a `closeSeq` -/
theorem customFlatten_ok (reg : Reg) (md : Option Key) (xs : List PyObj)
    (rs : List (Except Err FlatOut)) (hlen : rs.length = xs.length) :
    ∃ entries, customFlatten reg (customOutOf reg md .ok xs) rs =
      (match seqOuts rs with
       | .error e => .error e
       | .ok body => .ok (body.close .custom xs.length (.md md) entries (some reg) Option.none true)) := by
  unfold customFlatten customOutOf
  cases hm : reg.mode <;> simp [entriesFor, hlen, namedEntries_length, shiftedEntries_length]
  all_goals first
    | (refine ⟨Option.none, ?_⟩; cases seqOuts rs <;> rfl)
    | (refine ⟨some (namedEntries xs.length), ?_⟩; cases seqOuts rs <;> rfl)
    | (refine ⟨some (shiftedEntries xs.length), ?_⟩; cases seqOuts rs <;> rfl)

theorem pobj_custom (cfg : Cfg) (s : Bool) (reg : Reg) (md : Option Key) (xs : List PyObj)
    (ih : ∀ x ∈ xs, Pobj cfg s x) (d : Nat) (t : PyObj)
    (ht : customUnflatten reg md xs = t) (out : FlatOut)
    (h : customFlatten reg (customOutOf reg md .ok xs) (flattenList cfg s d xs) = .ok out) :
    RT out [t] := by
  obtain ⟨entries, he⟩ := customFlatten_ok reg md xs (flattenList cfg s d xs)
    (by simp [flattenList_eq])
  rw [he, flattenList_eq] at h
  let ps := xs.map fun x => (flattenGo cfg s d x, x)
  have h1 : ps.map (·.1) = xs.map (flattenGo cfg s d) := by simp [ps, List.map_map, Function.comp_def]
  have h2 : ps.map (·.2) = xs := by simp [ps, List.map_map, Function.comp_def]
  rw [← h1] at h
  split at h
  · simp at h
  · rename_i body hb
    simp at h
    subst h
    have hps : ∀ p ∈ ps, ∀ o, p.1 = .ok o → RT o [p.2] := by
      intro p hp o ho
      simp only [ps, List.mem_map] at hp
      obtain ⟨x, hx, rfl⟩ := hp
      exact ih x hx d o ho
    have hbody := RT_seq ps hps body hb
    rw [h2] at hbody
    apply RT_close hbody .custom (.md md) entries (some reg) Option.none true t (by simp)
    simp [makeNode, ht]

end Optree

namespace Optree

theorem mkDeque_of_ok (m : Option Nat) (xs : List PyObj) (h : maxlenOk m xs.length = true) :
    mkDeque m xs = .deque m xs := by
  unfold mkDeque
  cases m with
  | none => rfl
  | some n =>
    simp [maxlenOk] at h
    have : xs.length - n = 0 := by omega
    simp [this]

/-- what the depth / predicate prelude of `flattenGo` leaves behind on success -/
theorem flattenGo_prelude (cfg : Cfg) (s : Bool) (d : Nat) (x : PyObj) (out : FlatOut)
    (body : Except Err FlatOut)
    (h : (if d > cfg.maxDepth then Except.error Err.recursion
      else match cfg.evalPred x with
        | .error e => .error e
        | .ok true => .ok (leafOut x)
        | .ok false => body) = .ok out) : out = leafOut x ∨ body = .ok out := by
  split at h
  · simp at h
  · split at h
    · simp at h
    · left; simp at h; exact h.symm
    · right; exact h

mutual
theorem pobj (cfg : Cfg) (hreg : cfg.reg.OK) (s : Bool) :
    ∀ t : PyObj, t.wf = true → Pobj cfg s t
  | .leaf ty uid, _ => by
      intro d out h
      rw [flattenGo] at h
      rcases flattenGo_prelude cfg s d _ out _ h with h | h
      · subst h; exact RT_leaf _
      · simp at h; subst h; exact RT_leaf _
  | .none, _ => by
      intro d out h
      rw [flattenGo] at h
      rcases flattenGo_prelude cfg s d _ out _ h with h | h
      · subst h; exact RT_leaf _
      · split at h
        · simp at h; subst h; exact RT_leaf _
        · simp at h; subst h
          have := RT_close (xs := []) RT_empty .none .none Option.none Option.none Option.none false
            PyObj.none (by simp) (by simp [makeNode])
          simpa using this
  | .tuple xs, hwf => by
      intro d out h
      rw [flattenGo] at h
      rcases flattenGo_prelude cfg s d _ out _ h with h | h
      · subst h; exact RT_leaf _
      · simp only [PyObj.wf] at hwf
        exact pobj_tuple_like cfg s xs (plist cfg hreg s xs hwf) (d + 1) .tuple .none _ (by simp)
          (by intro nl nn; simp [makeNode]) out h
  | .list xs, hwf => by
      intro d out h
      rw [flattenGo] at h
      rcases flattenGo_prelude cfg s d _ out _ h with h | h
      · subst h; exact RT_leaf _
      · simp only [PyObj.wf] at hwf
        exact pobj_tuple_like cfg s xs (plist cfg hreg s xs hwf) (d + 1) .list .none _ (by simp)
          (by intro nl nn; simp [makeNode]) out h
  | .deque m xs, hwf => by
      intro d out h
      rw [flattenGo] at h
      rcases flattenGo_prelude cfg s d _ out _ h with h | h
      · subst h; exact RT_leaf _
      · simp only [PyObj.wf, Bool.and_eq_true] at hwf
        exact pobj_tuple_like cfg s xs (plist cfg hreg s xs hwf.2) (d + 1) .deque (.maxlen m) _
          (by simp) (by intro nl nn; simp [makeNode, mkDeque_of_ok m xs hwf.1]) out h
  | .dict kvs, hwf => by
      intro d out h
      rw [flattenGo] at h
      rcases flattenGo_prelude cfg s d _ out _ h with h | h
      · subst h; exact RT_leaf _
      · simp only [PyObj.wf, Bool.and_eq_true, decide_eq_true_eq] at hwf
        simp only [flattenKVs_eq] at h
        rw [dictOrder_map false s (fun p => (p.1, flattenGo cfg s (d + 1) p.2)) (by intro p; rfl)] at h
        exact pobj_dict_like cfg s kvs (dictOrder false s kvs) (dictOrder_perm _ _ _)
          (pkvs cfg hreg s kvs hwf.2) (d + 1) .dict .keys (some (kvs.map (·.1))) _ (by simp)
          (by intro nl nn
              simp [makeNode, dictBuild_perm kvs _ (dictOrder_perm false s kvs) hwf.1,
                (dictOrder_perm false s kvs).length_eq]) out h
  | .odict kvs, hwf => by
      intro d out h
      rw [flattenGo] at h
      rcases flattenGo_prelude cfg s d _ out _ h with h | h
      · subst h; exact RT_leaf _
      · simp only [PyObj.wf, Bool.and_eq_true, decide_eq_true_eq] at hwf
        simp only [flattenKVs_eq] at h
        exact pobj_dict_like cfg s kvs kvs (List.Perm.refl _)
          (pkvs cfg hreg s kvs hwf.2) (d + 1) .ordereddict .keys Option.none _ (by simp)
          (by intro nl nn; simp [makeNode, dictBuild_none kvs hwf.1]) out h
  | .ddict f kvs, hwf => by
      intro d out h
      rw [flattenGo] at h
      rcases flattenGo_prelude cfg s d _ out _ h with h | h
      · subst h; exact RT_leaf _
      · simp only [PyObj.wf, Bool.and_eq_true, decide_eq_true_eq] at hwf
        simp only [flattenKVs_eq] at h
        rw [dictOrder_map false s (fun p => (p.1, flattenGo cfg s (d + 1) p.2)) (by intro p; rfl)] at h
        exact pobj_dict_like cfg s kvs (dictOrder false s kvs) (dictOrder_perm _ _ _)
          (pkvs cfg hreg s kvs hwf.2) (d + 1) .defaultdict (.ddict f) (some (kvs.map (·.1))) _
          (by simp)
          (by intro nl nn
              simp [makeNode, dictBuild_perm kvs _ (dictOrder_perm false s kvs) hwf.1,
                (dictOrder_perm false s kvs).length_eq]) out h
  | .ntuple cls xs, hwf => by
      intro d out h
      rw [flattenGo] at h
      rcases flattenGo_prelude cfg s d _ out _ h with h | h
      · subst h; exact RT_leaf _
      · simp only [PyObj.wf] at hwf
        split at h
        · rename_i reg hl
          obtain ⟨hc, hk⟩ := hreg _ _ _ _ hl
          exact pobj_custom cfg s reg Option.none xs (plist cfg hreg s xs hwf) (d + 1) _
            (by simp [customUnflatten, hc, hk]) out h
        · exact pobj_tuple_like cfg s xs (plist cfg hreg s xs hwf) (d + 1) .namedtuple (.cls cls) _
            (by simp) (by intro nl nn; simp [makeNode]) out h
  | .sseq cls xs, hwf => by
      intro d out h
      rw [flattenGo] at h
      rcases flattenGo_prelude cfg s d _ out _ h with h | h
      · subst h; exact RT_leaf _
      · simp only [PyObj.wf] at hwf
        split at h
        · rename_i reg hl
          obtain ⟨hc, hk⟩ := hreg _ _ _ _ hl
          exact pobj_custom cfg s reg Option.none xs (plist cfg hreg s xs hwf) (d + 1) _
            (by simp [customUnflatten, hc, hk]) out h
        · exact pobj_tuple_like cfg s xs (plist cfg hreg s xs hwf) (d + 1) .structseq (.cls cls) _
            (by simp) (by intro nl nn; simp [makeNode]) out h
  | .user cls md q xs, hwf => by
      intro d out h
      rw [flattenGo] at h
      rcases flattenGo_prelude cfg s d _ out _ h with h | h
      · subst h; exact RT_leaf _
      · simp only [PyObj.wf, Bool.and_eq_true, beq_iff_eq] at hwf
        obtain ⟨hq, hwf⟩ := hwf
        subst hq
        split at h
        · rename_i reg hl
          obtain ⟨hc, hk⟩ := hreg _ _ _ _ hl
          exact pobj_custom cfg s reg md xs (plist cfg hreg s xs hwf) (d + 1) _
            (by simp [customUnflatten, hc, hk]) out h
        · simp at h; subst h; exact RT_leaf _
theorem plist (cfg : Cfg) (hreg : cfg.reg.OK) (s : Bool) :
    ∀ xs : List PyObj, PyObj.wfList xs = true → ∀ x ∈ xs, Pobj cfg s x
  | [], _ => by intro x hx; simp at hx
  | y :: ys, hwf => by
      simp only [PyObj.wfList, Bool.and_eq_true] at hwf
      intro x hx
      simp only [List.mem_cons] at hx
      rcases hx with hx | hx
      · subst hx; exact pobj cfg hreg s x hwf.1
      · exact plist cfg hreg s ys hwf.2 x hx
theorem pkvs (cfg : Cfg) (hreg : cfg.reg.OK) (s : Bool) :
    ∀ kvs : List (Key × PyObj), PyObj.wfKVs kvs = true → ∀ p ∈ kvs, Pobj cfg s p.2
  | [], _ => by intro p hp; simp at hp
  | (k, y) :: ys, hwf => by
      simp only [PyObj.wfKVs, Bool.and_eq_true] at hwf
      intro p hp
      simp only [List.mem_cons] at hp
      rcases hp with hp | hp
      · subst hp; exact pobj cfg hreg s y hwf.1
      · exact pkvs cfg hreg s ys hwf.2 p hp
end

end Optree

namespace Optree

/-- the last record of a flatten result describes the whole result -/
def FlatOut.Sane (out : FlatOut) : Prop :=
  ∃ n, out.nodes.getLast? = some n ∧ n.numNodes = out.nodes.length ∧
    n.numLeaves = out.leaves.length

theorem leafOut_sane (x : PyObj) : (leafOut x).Sane := ⟨Node.leaf, by simp [leafOut, Node.leaf]⟩

theorem close_sane (body : FlatOut) (kind : Kind) (arity : Nat) (data : NodeData)
    (entries : Option (List Key)) (custom : Option Reg) (okeys : Option (List Key)) (fc : Bool) :
    (body.close kind arity data entries custom okeys fc).Sane := by
  refine ⟨{ kind := kind, arity := arity, data := data, entries := entries, custom := custom,
            numLeaves := body.leaves.length, numNodes := body.nodes.length + 1,
            originalKeys := okeys }, ?_⟩
  simp [FlatOut.close]

theorem closeSeq_sane (rs : List (Except Err FlatOut)) (kind : Kind) (arity : Nat) (data : NodeData)
    (entries : Option (List Key)) (custom : Option Reg) (okeys : Option (List Key)) (out : FlatOut)
    (h : closeSeq rs kind arity data entries custom okeys = .ok out) : out.Sane := by
  unfold closeSeq at h
  split at h
  · simp at h
  · simp at h; subst h; exact close_sane _ _ _ _ _ _ _ _

theorem customFlatten_sane (reg : Reg) (co : CustomOut) (rs : List (Except Err FlatOut))
    (out : FlatOut) (h : customFlatten reg co rs = .ok out) : out.Sane := by
  unfold customFlatten at h
  split at h
  · simp at h
  · split at h
    · simp at h
    · split at h
      · simp at h
      · simp only at h
        split at h
        · simp at h
        · simp at h; subst h; exact close_sane _ _ _ _ _ _ _ _

theorem flattenGo_sane (cfg : Cfg) (s : Bool) (d : Nat) (t : PyObj) (out : FlatOut)
    (h : flattenGo cfg s d t = .ok out) : out.Sane := by
  cases t <;> rw [flattenGo] at h <;>
    rcases flattenGo_prelude cfg s d _ out _ h with h | h
  all_goals first
    | (subst h; exact leafOut_sane _)
    | (simp at h; subst h; exact leafOut_sane _)
    | exact closeSeq_sane _ _ _ _ _ _ _ _ h
    | skip
  · -- none
    split at h
    · simp at h; subst h; exact leafOut_sane _
    · simp at h; subst h; exact close_sane _ _ _ _ _ _ _ _
  · split at h
    · exact customFlatten_sane _ _ _ _ h
    · exact closeSeq_sane _ _ _ _ _ _ _ _ h
  · split at h
    · exact customFlatten_sane _ _ _ _ h
    · exact closeSeq_sane _ _ _ _ _ _ _ _ h
  · split at h
    · exact customFlatten_sane _ _ _ _ h
    · simp at h; subst h; exact leafOut_sane _

end Optree

namespace Optree

/-- decidable sufficient condition for `Registry.OK`: every table row is filed under the class and
class kind recorded in its registration -/
def Registry.okB (r : Registry) : Bool :=
  r.global.all (fun e => e.2.2.cls == e.1 && e.2.2.clsKind == e.2.1) &&
  r.named.all (fun e => e.2.2.2.cls == e.2.1 && e.2.2.2.clsKind == e.2.2.1)

theorem Registry.OK_of_okB (r : Registry) (h : r.okB = true) : r.OK := by
  simp only [Registry.okB, Bool.and_eq_true, List.all_eq_true, beq_iff_eq] at h
  obtain ⟨hg, hn⟩ := h
  intro ns ck cls reg hl
  unfold Registry.lookup at hl
  simp only at hl
  have hglobal : ∀ reg, (r.global.find? fun e => e.1 == cls && e.2.1 == ck).map (·.2.2) = some reg →
      reg.cls = cls ∧ reg.clsKind = ck := by
    intro reg hr
    simp only [Option.map_eq_some_iff] at hr
    obtain ⟨e, he, rfl⟩ := hr
    have hm := List.mem_of_find?_eq_some he
    have hp := List.find?_some he
    simp only [Bool.and_eq_true, beq_iff_eq] at hp
    have := hg e hm
    exact ⟨this.1.trans hp.1, this.2.trans hp.2⟩
  split at hl
  · rename_i reg' hr
    cases hl
    split at hr
    · simp only [Option.map_eq_some_iff] at hr
      obtain ⟨e, he, rfl⟩ := hr
      have hm := List.mem_of_find?_eq_some he
      have hp := List.find?_some he
      simp only [Bool.and_eq_true, beq_iff_eq] at hp
      have := hn e hm
      exact ⟨this.1.trans hp.1.2, this.2.trans hp.2⟩
    · simp at hr
  · exact hglobal reg hl

end Optree
