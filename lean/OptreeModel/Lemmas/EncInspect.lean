/-
  The index walkers `Children`, `Child` and `Compose` on encodings are the obvious tree operations
  (refinement, for C08).
-/
import OptreeModel.Lemmas.Enc

namespace Optree

/-! ### children -/

theorem STree.encL_getLast? (cs : List STree) (c : STree) :
    (STree.encL (cs ++ [c])).getLast? = some c.root := by
  rw [STree.encL_append]
  simp [STree.encL, List.getLast?_append, STree.enc_getLast?]

theorem splitChildren_encL (rs : List STree) :
    splitChildren rs.length (STree.encL rs.reverse) = .ok (rs.reverse.map STree.enc) := by
  induction rs with
  | nil => simp [splitChildren, STree.encL]
  | cons c rs ih =>
    simp only [List.length_cons, List.reverse_cons, List.map_append, List.map_cons, List.map_nil]
    unfold splitChildren
    rw [STree.encL_getLast?]
    simp only
    have happ : STree.encL (rs.reverse ++ [c]) = STree.encL rs.reverse ++ c.enc := by
      rw [STree.encL_append]; simp [STree.encL]
    have hlen : (STree.encL (rs.reverse ++ [c])).length = (STree.encL rs.reverse).length + c.size := by
      rw [happ, List.length_append, STree.enc_length]
    have hnlt : ¬ ((STree.encL (rs.reverse ++ [c])).length < c.size) := by
      rw [hlen]; omega
    simp only [STree.root_numNodes, hnlt, if_false]
    have hcut : (STree.encL (rs.reverse ++ [c])).length - c.size = (STree.encL rs.reverse).length := by
      rw [hlen]; omega
    rw [hcut, happ, List.take_left, List.drop_left, ih]

/-- `children()` of an encoded shape are the encoded child shapes, in order -/
theorem children_enc (s : STree) (nil : Bool) (ns : String) :
    children (s.spec nil ns) = .ok (s.children.map fun c => c.spec nil ns) := by
  unfold children
  simp only [STree.spec_sane, Bool.not_true, Bool.false_eq_true, if_false]
  simp only [STree.spec, STree.enc_getLast?, STree.enc_dropLast]
  have harity : s.root.arity = s.children.length := by
    cases s <;> simp [STree.root, STree.children, Node.leaf, NInfo.toNode]
  have h := splitChildren_encL s.children.reverse
  simp only [List.length_reverse, List.reverse_reverse] at h
  rw [harity, h]
  simp only [List.map_map]
  have hall : (List.map ((fun ns_1 => ({ nodes := ns_1, noneIsLeaf := nil, ns := ns } : Spec)) ∘ STree.enc)
      s.children).all Spec.sane = true := by
    simp only [List.all_map, List.all_eq_true]
    intro c _
    exact STree.spec_sane c nil ns
  simp only [hall, if_true]
  rfl

/-! ### child -/

theorem skipRight_encL (k : Nat) (rs : List STree) (hk : k ≤ rs.length) :
    skipRight k (STree.encL rs.reverse) = .ok (STree.encL (rs.drop k).reverse) := by
  induction k generalizing rs with
  | zero => simp [skipRight]
  | succ k ih =>
    cases rs with
    | nil => simp at hk
    | cons c rs =>
      simp only [List.length_cons, Nat.add_le_add_iff_right] at hk
      simp only [List.reverse_cons, List.drop_succ_cons]
      unfold skipRight
      rw [STree.encL_getLast?]
      simp only
      have happ : STree.encL (rs.reverse ++ [c]) = STree.encL rs.reverse ++ c.enc := by
        rw [STree.encL_append]; simp [STree.encL]
      have hlen : (STree.encL (rs.reverse ++ [c])).length = (STree.encL rs.reverse).length + c.size := by
        rw [happ, List.length_append, STree.enc_length]
      have hnlt : ¬ ((STree.encL (rs.reverse ++ [c])).length < c.size) := by
        rw [hlen]; omega
      simp only [STree.root_numNodes, hnlt, if_false]
      have hcut : (STree.encL (rs.reverse ++ [c])).length - c.size = (STree.encL rs.reverse).length := by
        rw [hlen]; omega
      rw [hcut, happ, List.take_left]
      exact ih rs hk

theorem normIndex_lt {index : Int} {arity j : Nat} (h : normIndex index arity = some j) : j < arity := by
  unfold normIndex at h
  split at h
  · simp at h
  · rename_i hc
    simp only [Bool.or_eq_true, decide_eq_true_eq, not_or, Int.not_lt] at hc
    split at h
    · simp only [Option.some.injEq] at h
      omega
    · simp only [Option.some.injEq] at h
      omega

/-- `child(i)` with Python index semantics is the encoded `i`-th child shape -/
theorem child_enc' (s : STree) (nil : Bool) (ns : String) (index : Int) :
    child { nodes := s.enc, noneIsLeaf := nil, ns := ns } index =
      match normIndex index s.children.length with
      | Option.none => .error .index
      | some j =>
          match s.children[j]? with
          | some c => .ok { nodes := c.enc, noneIsLeaf := nil, ns := ns }
          | Option.none => .error .index := by
  have hsane : ∀ t : STree, (Spec.sane { nodes := t.enc, noneIsLeaf := nil, ns := ns }) = true :=
    fun t => STree.spec_sane t nil ns
  unfold child
  simp only [hsane, Bool.not_true, Bool.false_eq_true, if_false, STree.enc_getLast?, STree.enc_dropLast]
  have harity : s.root.arity = s.children.length := by
    cases s <;> simp [STree.root, STree.children, Node.leaf, NInfo.toNode]
  rw [harity]
  cases hni : normIndex index s.children.length with
  | none => rfl
  | some j =>
    have hj := normIndex_lt hni
    simp only
    have hsk := skipRight_encL (s.children.length - 1 - j) s.children.reverse (by simp; omega)
    simp only [List.reverse_reverse] at hsk
    have hdrop : (s.children.reverse.drop (s.children.length - 1 - j)).reverse = s.children.take (j + 1) := by
      rw [List.drop_reverse, List.reverse_reverse]
      congr 1
      omega
    have htake : s.children.take (j + 1) = s.children.take j ++ [s.children[j]] := by
      rw [List.take_succ_eq_append_getElem hj]
    rw [hdrop, htake] at hsk
    have happ : STree.encL (s.children.take j ++ [s.children[j]]) =
        STree.encL (s.children.take j) ++ s.children[j].enc := by
      rw [STree.encL_append]; simp [STree.encL]
    have hlen : (STree.encL (s.children.take j ++ [s.children[j]])).length =
        (STree.encL (s.children.take j)).length + s.children[j].size := by
      rw [happ, List.length_append, STree.enc_length]
    have hnlt : ¬ ((STree.encL (s.children.take j ++ [s.children[j]])).length < s.children[j].size) := by
      rw [hlen]; omega
    have hcut : (STree.encL (s.children.take j ++ [s.children[j]])).length - s.children[j].size =
        (STree.encL (s.children.take j)).length := by
      rw [hlen]; omega
    have hdr : List.drop (STree.encL (s.children.take j)).length
        (STree.encL (s.children.take j ++ [s.children[j]])) = s.children[j].enc := by
      rw [happ, List.drop_left]
    simp only [hsk, STree.encL_getLast?, STree.root_numNodes, hnlt, if_false, hcut, hdr, hsane, if_true,
      List.getElem?_eq_getElem hj]

theorem child_enc (s : STree) (nil : Bool) (ns : String) (index : Int) :
    child (s.spec nil ns) index =
      match normIndex index s.children.length with
      | Option.none => .error .index
      | some j =>
          match s.children[j]? with
          | some c => .ok (c.spec nil ns)
          | Option.none => .error .index := child_enc' s nil ns index

/-! ### compose -/

mutual
theorem STree.leaves_le_size : ∀ s : STree, s.leaves ≤ s.size
  | .leaf => by simp [STree.leaves, STree.size]
  | .node _ cs => by
      have := STree.leavesL_le_sizeL cs
      simp only [STree.leaves, STree.size]; omega
theorem STree.leavesL_le_sizeL : ∀ cs : List STree, STree.leavesL cs ≤ STree.sizeL cs
  | [] => by simp [STree.leavesL, STree.sizeL]
  | c :: cs => by
      have h1 := STree.leaves_le_size c
      have h2 := STree.leavesL_le_sizeL cs
      simp only [STree.leavesL, STree.sizeL]; omega
end

mutual
theorem STree.subst_leaves (b : STree) : ∀ a : STree, (a.subst b).leaves = a.leaves * b.leaves
  | .leaf => by simp [STree.subst, STree.leaves]
  | .node _ cs => by simp [STree.subst, STree.leaves, STree.substL_leaves b cs]
theorem STree.substL_leaves (b : STree) : ∀ cs : List STree,
    STree.leavesL (STree.substL cs b) = STree.leavesL cs * b.leaves
  | [] => by simp [STree.substL, STree.leavesL]
  | c :: cs => by
      simp [STree.substL, STree.leavesL, STree.subst_leaves b c, STree.substL_leaves b cs, Nat.add_mul]
end

mutual
theorem STree.subst_size (b : STree) : ∀ a : STree,
    (a.subst b).size + a.leaves = a.size + a.leaves * b.size
  | .leaf => by simp [STree.subst, STree.leaves, STree.size]; omega
  | .node _ cs => by
      have := STree.substL_size b cs
      simp only [STree.subst, STree.leaves, STree.size]; omega
theorem STree.substL_size (b : STree) : ∀ cs : List STree,
    STree.sizeL (STree.substL cs b) + STree.leavesL cs = STree.sizeL cs + STree.leavesL cs * b.size
  | [] => by simp [STree.substL, STree.leavesL, STree.sizeL]
  | c :: cs => by
      have h1 := STree.subst_size b c
      have h2 := STree.substL_size b cs
      simp only [STree.substL, STree.leavesL, STree.sizeL, Nat.add_mul]; omega
end

theorem STree.substL_length (b : STree) (cs : List STree) : (STree.substL cs b).length = cs.length := by
  induction cs with
  | nil => rfl
  | cons c cs ih => simp [STree.substL, ih]

/-- the per-node rewriting of `Compose` -/
def composeNode (inner : List Node) (nil nin : Nat) (n : Node) : List Node :=
  if n.kind == .leaf then inner
  else [{ n with numLeaves := n.numLeaves * nil,
                 numNodes := (n.numNodes - n.numLeaves) + n.numLeaves * nin }]

mutual
theorem compose_flatMap (b : STree) : ∀ a : STree, a.wf = true →
    a.enc.flatMap (composeNode b.enc b.leaves b.size) = (a.subst b).enc
  | .leaf, _ => by simp [STree.enc, STree.subst, composeNode, Node.leaf]
  | .node i cs, h => by
      have hk : (i.kind == Kind.leaf) = false := by
        simp only [STree.wf, Bool.and_eq_true, bne_iff_ne, ne_eq] at h
        simp [h.1.1.1]
      have hw : STree.wfL cs = true := by
        simp only [STree.wf, Bool.and_eq_true] at h; exact h.2
      have hle := STree.leavesL_le_sizeL cs
      have hs := STree.substL_size b cs
      have hl := STree.substL_leaves b cs
      simp only [STree.enc, STree.subst, List.flatMap_append, List.flatMap_cons, List.flatMap_nil,
        List.append_nil, compose_flatMapL b cs hw]
      congr 1
      simp only [composeNode, NInfo.toNode, hk, Bool.false_eq_true, if_false, List.cons.injEq, and_true,
        STree.substL_length, hl]
      congr 1
      omega
theorem compose_flatMapL (b : STree) : ∀ cs : List STree, STree.wfL cs = true →
    (STree.encL cs).flatMap (composeNode b.enc b.leaves b.size) = STree.encL (STree.substL cs b)
  | [], _ => by simp [STree.encL, STree.substL]
  | c :: cs, h => by
      simp only [STree.wfL, Bool.and_eq_true] at h
      simp only [STree.encL, STree.substL, List.flatMap_append, compose_flatMap b c h.1,
        compose_flatMapL b cs h.2]
end

/-- `compose` of encoded shapes is the encoding of the substituted shape -/
theorem compose_enc (a b : STree) (ha : a.wf = true) (nil : Bool) (ns ns' : String)
    (hc : nsCompatible ns ns' = true) :
    compose (a.spec nil ns) (b.spec nil ns') = .ok ((a.subst b).spec nil (mergeNs ns ns')) := by
  unfold compose
  simp only [STree.spec_sane, Bool.not_true, Bool.or_self, Bool.false_eq_true, if_false,
    STree.spec_numLeaves, STree.spec_numNodes]
  have hnodes : (a.spec nil ns).nodes.flatMap (fun n =>
      if n.kind == .leaf then (b.spec nil ns').nodes
      else [{ n with numLeaves := n.numLeaves * b.leaves,
                     numNodes := (n.numNodes - n.numLeaves) + n.numLeaves * b.size }]) =
      (a.subst b).enc := by
    have := compose_flatMap b a ha
    simp only [STree.spec]
    rw [← this]
    rfl
  simp only [STree.spec] at hnodes ⊢
  simp only [bne_self_eq_false, Bool.false_eq_true, if_false, hc, Bool.not_true, hnodes,
    STree.enc_getLast?, STree.root_numLeaves, STree.root_numNodes]
  have h1 := STree.subst_leaves b a
  have h2 := STree.subst_size b a
  have h3 := STree.leaves_le_size a
  have e1 : ¬ ((a.subst b).leaves != a.leaves * b.leaves) = true := by simp [h1]
  have e2 : ¬ ((a.subst b).size != a.size - a.leaves + a.leaves * b.size) = true := by
    simp only [bne_iff_ne, ne_eq, Decidable.not_not]; omega
  have hs := STree.spec_sane (a.subst b) nil (mergeNs ns ns')
  simp only [STree.spec] at hs
  simp only [e1, e2, if_false, hs, Bool.not_true, Bool.false_eq_true]

/-! ### closure: the substituted shape is well-formed -/

mutual
theorem STree.subst_wf (b : STree) (hb : b.wf = true) : ∀ a : STree, a.wf = true → (a.subst b).wf = true
  | .leaf, _ => by simpa [STree.subst] using hb
  | .node i cs, h => by
      simp only [STree.wf, Bool.and_eq_true] at h
      obtain ⟨⟨⟨h1, h2⟩, h3⟩, h4⟩ := h
      have hl := STree.substL_length b cs
      have he : (STree.substL cs b).isEmpty = cs.isEmpty := by
        cases cs <;> simp [STree.substL]
      simp only [STree.subst, STree.wf, Bool.and_eq_true, h1, he, h2, hl, h3, STree.substL_wf b hb cs h4,
        and_self]
theorem STree.substL_wf (b : STree) (hb : b.wf = true) : ∀ cs : List STree, STree.wfL cs = true →
    STree.wfL (STree.substL cs b) = true
  | [], _ => by simp [STree.substL, STree.wfL]
  | c :: cs, h => by
      simp only [STree.wfL, Bool.and_eq_true] at h
      simp [STree.substL, STree.wfL, STree.subst_wf b hb c h.1, STree.substL_wf b hb cs h.2]
end

end Optree
