/-
  `PyTreeSpec::Transform` on encodings (refinement, for C08): with the identity on nodes and a leaf
  function that always answers the treespec of a shape `b`, the left-to-right loop with its stack of
  pending (num_leaves, num_nodes) pairs produces the encoding of `a.subst b` — the same shape `compose`
  builds.  With `b = leaf` (identity functions) that is `a` itself.
-/
import OptreeModel.Lemmas.EncInspect
import OptreeModel.Lemmas.EncPrefix

namespace Optree

/-- the stack entries the children of a node leave behind (last child on top) -/
def pendOf (b : STree) (cs : List STree) : List (Nat × Nat) :=
  cs.reverse.map fun c => ((c.subst b).leaves, (c.subst b).size)

theorem STree.substL_eq_map (b : STree) (cs : List STree) : STree.substL cs b = cs.map (fun c => c.subst b) := by
  induction cs with
  | nil => rfl
  | cons c cs ih => simp [STree.substL, ih]

theorem popSum_pendOf (b : STree) : ∀ (cs : List STree) (rest : List (Nat × Nat)),
    popSum cs.length (pendOf b cs ++ rest) =
      some ((STree.leavesL (STree.substL cs b), STree.sizeL (STree.substL cs b)), rest) := by
  intro cs
  -- induct over the reversed list: `popSum` pops the last child first
  have key : ∀ (rs : List STree) (rest : List (Nat × Nat)),
      popSum rs.length ((rs.map fun c => ((c.subst b).leaves, (c.subst b).size)) ++ rest) =
        some (((rs.map fun c => (c.subst b).leaves).sum, (rs.map fun c => (c.subst b).size).sum), rest) := by
    intro rs
    induction rs with
    | nil => intro rest; simp [popSum]
    | cons r rs ih =>
      intro rest
      simp only [List.length_cons, List.map_cons, List.cons_append, popSum, ih rest, List.sum_cons]
  intro rest
  have h := key cs.reverse rest
  simp only [List.length_reverse] at h
  unfold pendOf
  rw [h]
  have e1 : (cs.reverse.map fun c => (c.subst b).leaves).sum = STree.leavesL (STree.substL cs b) := by
    rw [STree.leavesL_eq_sum, STree.substL_eq_map, List.map_map]
    exact ((List.reverse_perm cs).map _).sum_nat
  have e2 : (cs.reverse.map fun c => (c.subst b).size).sum = STree.sizeL (STree.substL cs b) := by
    rw [STree.sizeL_eq_sum, STree.substL_eq_map, List.map_map]
    exact ((List.reverse_perm cs).map _).sum_nat
  rw [e1, e2]

/-- the state after the loop has consumed the encoding of `a` -/
def stAfter (b : STree) (st : TransformState) (a : STree) : TransformState :=
  { nodes := st.nodes ++ (a.subst b).enc
    ns := st.ns
    pending := ((a.subst b).leaves, (a.subst b).size) :: st.pending
    extraLeaves := st.extraLeaves + (a.leaves : Int) * ((b.leaves : Int) - 1)
    extraNodes := st.extraNodes + (a.leaves : Int) * ((b.size : Int) - 1) }

def stAfterL (b : STree) (st : TransformState) (cs : List STree) : TransformState :=
  { nodes := st.nodes ++ STree.encL (STree.substL cs b)
    ns := st.ns
    pending := pendOf b cs ++ st.pending
    extraLeaves := st.extraLeaves + (STree.leavesL cs : Int) * ((b.leaves : Int) - 1)
    extraNodes := st.extraNodes + (STree.leavesL cs : Int) * ((b.size : Int) - 1) }

theorem TransformState.ext' {s t : TransformState} (h1 : s.nodes = t.nodes) (h2 : s.ns = t.ns)
    (h3 : s.pending = t.pending) (h4 : s.extraLeaves = t.extraLeaves) (h5 : s.extraNodes = t.extraNodes) :
    s = t := by
  cases s; cases t; simp_all

mutual
theorem transformLoop_enc (sp : Spec) (b : STree) (nsb : String)
    (hnsb : nsb = sp.ns ∨ nsb = "") :
    ∀ a : STree, a.wf = true → ∀ (st : TransformState) (rest : List Node), st.ns = sp.ns →
      transformLoop sp Option.none (some fun _ => .ok (b.spec sp.noneIsLeaf nsb)) st (a.enc ++ rest) =
        transformLoop sp Option.none (some fun _ => .ok (b.spec sp.noneIsLeaf nsb)) (stAfter b st a) rest
  | .leaf, _, st, rest, hst => by
      simp only [STree.enc, List.singleton_append, transformLoop, transformStep, Node.leaf, beq_self_eq_true, if_true,
        STree.spec]
      have hns : (if (nsb != "") = true then
          (if (st.ns == "") = true then Except.ok nsb
           else if (nsb != st.ns) = true then Except.error Err.value else Except.ok st.ns)
          else Except.ok st.ns : Except Err String) = .ok st.ns := by
        rcases hnsb with h | h
        · subst h
          by_cases h0 : sp.ns = ""
          · simp [h0, hst]
          · simp [h0, hst]
        · simp [h]
      have hs := STree.spec_sane b sp.noneIsLeaf nsb
      have h1 := STree.spec_numLeaves b sp.noneIsLeaf nsb
      have h2 := STree.spec_numNodes b sp.noneIsLeaf nsb
      simp only [STree.spec] at hs h1 h2
      simp only [hns, hs, h1, h2, bne_self_eq_false, Bool.false_eq_true, if_false, Bool.not_true]
      congr 1
      apply TransformState.ext' <;> simp [stAfter, STree.subst, STree.leaves] <;> omega
  | .node i cs, ha, st, rest, hst => by
      obtain ⟨hnl, _, _, hw⟩ := STree.wf_node ha
      have hk : (i.kind == Kind.leaf) = false := by simp [hnl]
      simp only [STree.enc, List.append_assoc, List.singleton_append]
      rw [transformLoop_encL sp b nsb hnsb cs hw st _ hst]
      simp only [transformLoop, transformStep, NInfo.toNode, hk, Bool.false_eq_true, if_false]
      have hol : oneLevelOf sp (Node.mk i.kind cs.length i.data i.entries i.custom (STree.leavesL cs)
          (STree.sizeL cs + 1) i.originalKeys) =
          { nodes := List.replicate cs.length Node.leaf ++
              [Node.mk i.kind cs.length i.data i.entries i.custom cs.length (cs.length + 1) i.originalKeys]
            noneIsLeaf := sp.noneIsLeaf, ns := sp.ns } := by
        simp [oneLevelOf, hk]
      simp only [hol, bne_self_eq_false, Bool.false_eq_true, if_false, stAfterL, hst]
      have hkb : (i.kind != Kind.leaf) = true := by simp [hnl]
      have hns : (if (sp.ns != "") = true then
          (if (sp.ns == "") = true then (Except.ok sp.ns : Except Err String) else Except.ok sp.ns)
          else Except.ok sp.ns) = .ok sp.ns := by
        split <;> (try split) <;> rfl
      simp only [Spec.numLeaves, Spec.numNodes, List.getLast?_append, List.getLast?_singleton, Option.some_or,
        Option.map_some, Option.getD_some, List.length_append, List.length_replicate, List.length_singleton,
        bne_self_eq_false, Bool.false_eq_true, if_false, popSum_pendOf, hkb, if_true, hns]
      congr 1
      apply TransformState.ext' <;>
        simp [stAfter, STree.subst, STree.enc, NInfo.toNode, STree.leaves, STree.size, STree.substL_length, hst]
theorem transformLoop_encL (sp : Spec) (b : STree) (nsb : String) (hnsb : nsb = sp.ns ∨ nsb = "") :
    ∀ cs : List STree, STree.wfL cs = true → ∀ (st : TransformState) (rest : List Node), st.ns = sp.ns →
      transformLoop sp Option.none (some fun _ => .ok (b.spec sp.noneIsLeaf nsb)) st (STree.encL cs ++ rest) =
        transformLoop sp Option.none (some fun _ => .ok (b.spec sp.noneIsLeaf nsb)) (stAfterL b st cs) rest
  | [], _, st, rest, _ => by
      simp only [STree.encL, List.nil_append]
      congr 1
      apply TransformState.ext' <;> simp [stAfterL, STree.substL, STree.encL, pendOf, STree.leavesL]
  | c :: cs, hw, st, rest, hst => by
      simp only [STree.wfL, Bool.and_eq_true] at hw
      simp only [STree.encL, List.append_assoc]
      rw [transformLoop_enc sp b nsb hnsb c hw.1 st _ hst,
        transformLoop_encL sp b nsb hnsb cs hw.2 (stAfter b st c) rest (by simp [stAfter, hst])]
      congr 1
      apply TransformState.ext' <;>
        simp [stAfterL, stAfter, STree.substL, STree.encL, pendOf, STree.leavesL, List.append_assoc]
      · push_cast; rw [Int.add_mul]; omega
      · push_cast; rw [Int.add_mul]; omega
end

/-- **`transform` with the identity on nodes and a leaf function answering the treespec of `b` builds the
encoding of `a.subst b`** (the shape `compose` builds), keeping the namespace -/
theorem transform_enc (a b : STree) (ha : a.wf = true) (nil : Bool) (ns nsb : String)
    (hnsb : nsb = ns ∨ nsb = "") :
    transform (a.spec nil ns) Option.none (some fun _ => .ok (b.spec nil nsb)) =
      .ok ((a.subst b).spec nil ns) := by
  unfold transform
  simp only [STree.spec_sane, Bool.not_true, Bool.false_eq_true, if_false, Option.isNone_none, Option.isNone_some,
    Bool.and_false]
  have hloop := transformLoop_enc (a.spec nil ns) b nsb hnsb a ha ⟨[], ns, [], 0, 0⟩ [] rfl
  simp only [List.append_nil, STree.spec] at hloop
  simp only [STree.spec, hloop, transformLoop, stAfter, List.nil_append, List.length_singleton, bne_self_eq_false,
    Bool.false_eq_true, if_false, STree.enc_getLast?, STree.root_numLeaves, STree.root_numNodes]
  have h1 := STree.subst_leaves b a
  have h2 := STree.subst_size b a
  have h3 := STree.leaves_le_size a
  have hn1 := STree.spec_numLeaves a nil ns
  have hn2 := STree.spec_numNodes a nil ns
  simp only [STree.spec] at hn1 hn2
  have e1 : ¬ (((a.subst b).leaves : Int) != ((a.leaves : Nat) : Int) + (0 + (a.leaves : Int) * ((b.leaves : Int) - 1))) = true := by
    simp only [bne_iff_ne, ne_eq, Decidable.not_not, h1]
    push_cast
    rw [Int.mul_sub]; omega
  have e2 : ¬ (((a.subst b).size : Int) != ((a.size : Nat) : Int) + (0 + (a.leaves : Int) * ((b.size : Int) - 1))) = true := by
    simp only [bne_iff_ne, ne_eq, Decidable.not_not]
    have : ((a.subst b).size : Int) + a.leaves = a.size + a.leaves * b.size := by exact_mod_cast h2
    rw [Int.mul_sub]; omega
  have hs := STree.spec_sane (a.subst b) nil ns
  simp only [STree.spec] at hs
  simp only [hn1, hn2, e1, e2, if_false, hs, Bool.not_true, Bool.false_eq_true]

end Optree
