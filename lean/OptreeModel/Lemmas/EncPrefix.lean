/-
  `PyTreeSpec::IsPrefix` on encodings is the tree-level prefix relation (refinement, for C07).

  The array walk goes over the *reversed* arrays; for dict-kind nodes with differing key order it
  cuts the other array's children into segments and re-orders them (`cutSegments`,
  `reorderSegments`).  At tree level that is "pair the children by key" (`STree.prefixD`).
-/
import OptreeModel.Lemmas.Enc
import Batteries.Data.List.Perm

namespace Optree

/-! ### segments -/

theorem cutSegments_flatten (rs : List STree) (tail : List Node) :
    cutSegments rs.length ((rs.map STree.renc).flatten ++ tail) = .ok (rs.map STree.renc, tail) := by
  induction rs with
  | nil => simp [cutSegments]
  | cons r rs ih =>
    simp only [List.length_cons, List.map_cons, List.flatten_cons, List.append_assoc]
    have hr : r.renc = r.root :: STree.rencL r.children := STree.renc_eq r
    have hlen : r.renc.length = r.size := STree.renc_length r
    have hpos := STree.size_pos r
    unfold cutSegments
    rw [hr]
    simp only [List.cons_append]
    have h0 : (r.root.numNodes == 0) = false := by
      rw [STree.root_numNodes]; simp; omega
    have hl : ¬ ((r.root :: (STree.rencL r.children ++ ((rs.map STree.renc).flatten ++ tail))).length
                < r.root.numNodes) := by
      rw [STree.root_numNodes]
      have : (r.root :: STree.rencL r.children).length = r.size := by rw [← hr, hlen]
      simp only [List.length_cons, List.length_append] at this ⊢
      omega
    simp only [h0, Bool.false_or, decide_eq_true_eq, hl, if_false]
    have hdrop : (r.root :: (STree.rencL r.children ++ ((rs.map STree.renc).flatten ++ tail))).drop
        r.root.numNodes = (rs.map STree.renc).flatten ++ tail := by
      rw [STree.root_numNodes, ← List.cons_append, ← hr, ← hlen, List.drop_left]
    have htake : (r.root :: (STree.rencL r.children ++ ((rs.map STree.renc).flatten ++ tail))).take
        r.root.numNodes = r.renc := by
      rw [STree.root_numNodes, ← List.cons_append, ← hr, ← hlen, List.take_left]
    rw [hdrop, htake, ih]
    simp [hr]

theorem sum_length_renc (rs : List STree) :
    ((rs.map STree.renc).map List.length).sum = STree.sizeL rs := by
  induction rs with
  | nil => simp [STree.sizeL]
  | cons r rs ih =>
    simp only [List.map_cons, List.sum_cons, STree.sizeL, STree.renc_length, ih]

/-! ### pairing by key -/

/-- the children of the other node re-ordered to follow `ks` -/
def pickD (ks oks : List Key) (ds : List STree) : List STree :=
  ks.filterMap fun k => lookupChild k oks ds

theorem lookupChild_eq_getElem (k : Key) (oks : List Key) (ds : List STree)
    (hlen : oks.length = ds.length) :
    lookupChild k oks ds = (keyIndex k oks).bind fun j => ds[j]? := by
  induction oks generalizing ds with
  | nil => simp [lookupChild, keyIndex]
  | cons k' oks ih =>
    cases ds with
    | nil => simp at hlen
    | cons d ds =>
      simp only [List.length_cons, Nat.add_right_cancel_iff] at hlen
      simp only [lookupChild]
      by_cases hk : k' = k
      · subst hk
        simp [keyIndex, List.findIdx_cons]
      · have hk' : (k' == k) = false := by simp [hk]
        simp only [hk', Bool.false_eq_true, if_false, ih ds hlen]
        simp only [keyIndex, List.findIdx_cons, hk', cond_false, List.length_cons,
          Nat.add_lt_add_iff_right]
        split <;> simp

theorem keyIndex_lt {k : Key} {ks : List Key} {j : Nat} (h : keyIndex k ks = some j) :
    j < ks.length := by
  unfold keyIndex at h
  simp only at h
  split at h
  · simp at h; omega
  · simp at h

theorem keyIndex_of_mem {k : Key} {ks : List Key} (h : k ∈ ks) : ∃ j, keyIndex k ks = some j := by
  unfold keyIndex
  have : ks.findIdx (· == k) < ks.length := by
    apply List.findIdx_lt_length_of_exists
    exact ⟨k, h, by simp⟩
  exact ⟨ks.findIdx (· == k), by simp [this]⟩

theorem mapM_except_filterMap {α β γ : Type} (f : α → Except Err γ) (look : α → Option β)
    (h : β → γ) (l : List α) (H : ∀ k ∈ l, ∃ d, look k = some d ∧ f k = .ok (h d)) :
    l.mapM f = .ok ((l.filterMap look).map h) := by
  induction l with
  | nil => simp [pure, Except.pure]
  | cons k l ih =>
    obtain ⟨d, hd, hp⟩ := H k (by simp)
    have ih' := ih (fun k' hk' => H k' (by simp [hk']))
    simp only [List.mapM_cons, hp, ih', List.filterMap_cons, hd, List.map_cons, bind, Except.bind,
      pure, Except.pure]

/-- `reorderSegments` on the segments of an encoded child list -/
theorem reorderSegments_renc (ks oks : List Key) (ds : List STree) (hlen : oks.length = ds.length)
    (hmem : ∀ k ∈ ks, k ∈ oks) :
    reorderSegments ks oks (ds.reverse.map STree.renc) =
      .ok ((pickD ks oks ds).reverse.map STree.renc) := by
  unfold reorderSegments pickD
  simp only
  rw [← List.filterMap_reverse]
  apply mapM_except_filterMap
  intro k hk
  obtain ⟨j, hj⟩ := keyIndex_of_mem (hmem k (by simpa using hk))
  have hjl := keyIndex_lt hj
  have hjd : j < ds.length := hlen ▸ hjl
  refine ⟨ds[j], ?_, ?_⟩
  · rw [lookupChild_eq_getElem k oks ds hlen, hj]; simp [hjd]
  · simp only [hj]
    have hidx : oks.length - 1 - j < (ds.reverse.map STree.renc).length := by simp; omega
    rw [List.getElem?_eq_getElem hidx]
    simp only [List.getElem_map, List.getElem_reverse]
    have hi : ds.length - 1 - (oks.length - 1 - j) = j := by omega
    simp [hi]

theorem rencL_pick_flatten (ds' : List STree) :
    (ds'.reverse.map STree.renc).flatten = STree.rencL ds' := (STree.rencL_eq_flatten ds').symm

/-- when every key is found, `pickD` has one tree per key -/
theorem pickD_length (ks oks : List Key) (ds : List STree) (hlen : oks.length = ds.length)
    (hmem : ∀ k ∈ ks, k ∈ oks) : (pickD ks oks ds).length = ks.length := by
  induction ks with
  | nil => simp [pickD]
  | cons k ks ih =>
    obtain ⟨j, hj⟩ := keyIndex_of_mem (hmem k (by simp))
    have hjd : j < ds.length := hlen ▸ keyIndex_lt hj
    have : lookupChild k oks ds = some ds[j] := by
      rw [lookupChild_eq_getElem k oks ds hlen, hj]; simp [hjd]
    have ih' := ih (fun k' hk' => hmem k' (by simp [hk']))
    simp only [pickD, List.filterMap_cons, this, List.length_cons] at ih' ⊢
    omega

theorem pickD_cons (k : Key) (ks oks : List Key) (ds : List STree) (d : STree)
    (h : lookupChild k oks ds = some d) : pickD (k :: ks) oks ds = d :: pickD ks oks ds := by
  simp [pickD, List.filterMap_cons, h]

theorem filterMap_congr' {α β : Type} {f g : α → Option β} {l : List α}
    (h : ∀ x ∈ l, f x = g x) : l.filterMap f = l.filterMap g := by
  induction l with
  | nil => rfl
  | cons x l ih =>
    simp only [List.filterMap_cons, h x (by simp)]
    rw [ih (fun y hy => h y (by simp [hy]))]

/-- looking a nodup key list up in itself is the identity -/
theorem pickD_self (ks : List Key) (ds : List STree) (hlen : ks.length = ds.length)
    (hnd : ks.Nodup) : pickD ks ks ds = ds := by
  induction ks generalizing ds with
  | nil => cases ds <;> simp_all [pickD]
  | cons k ks ih =>
    cases ds with
    | nil => simp at hlen
    | cons d ds =>
      simp only [List.length_cons, Nat.add_right_cancel_iff] at hlen
      have hnd' := List.nodup_cons.mp hnd
      have h1 : lookupChild k (k :: ks) (d :: ds) = some d := by simp [lookupChild]
      rw [pickD_cons k ks _ _ d h1]
      congr 1
      have : pickD ks (k :: ks) (d :: ds) = pickD ks ks ds := by
        unfold pickD
        apply filterMap_congr'
        intro k' hk'
        have hne : (k == k') = false := by
          simp only [beq_eq_false_iff_ne, ne_eq]
          intro e; subst e; exact hnd'.1 hk'
        simp [lookupChild, hne]
      rw [this, ih ds hlen hnd'.2]



/-! ### key sets -/

theorem keySetEq_iff (ks oks : List Key) :
    keySetEq ks oks = true ↔ ks.length = oks.length ∧ ∀ k ∈ ks, k ∈ oks := by
  simp [keySetEq, List.all_eq_true]

theorem keys_perm {ks oks : List Key} (h : keySetEq ks oks = true) (hnd : ks.Nodup) :
    ks.Perm oks := by
  obtain ⟨hl, hm⟩ := (keySetEq_iff ks oks).mp h
  exact (List.subperm_of_subset hnd hm).perm_of_length_le (by omega)

theorem pickD_perm {ks oks : List Key} {ds : List STree} (h : keySetEq ks oks = true)
    (hnd : ks.Nodup) (hnd' : oks.Nodup) (hlen : oks.length = ds.length) :
    (pickD ks oks ds).Perm ds := by
  have hp := keys_perm h hnd
  have := hp.filterMap (fun k => lookupChild k oks ds)
  rw [show List.filterMap (fun k => lookupChild k oks ds) oks = ds from pickD_self oks ds hlen hnd'] at this
  exact this

theorem STree.sizeL_perm {xs ys : List STree} (h : xs.Perm ys) : STree.sizeL xs = STree.sizeL ys := by
  rw [STree.sizeL_eq_sum, STree.sizeL_eq_sum]
  exact (h.map STree.size).sum_nat

theorem STree.wfL_iff (cs : List STree) : STree.wfL cs = true ↔ ∀ c ∈ cs, c.wf = true := by
  induction cs with
  | nil => simp [STree.wfL]
  | cons c cs ih => simp [STree.wfL, ih]

theorem STree.wfL_perm {xs ys : List STree} (h : xs.Perm ys) (hw : STree.wfL ys = true) :
    STree.wfL xs = true := by
  rw [STree.wfL_iff] at hw ⊢
  intro c hc
  exact hw c (h.subset hc)

/-- pairing by key = pairing by position with the re-ordered children -/
theorem STree.prefixD_eq (oks : List Key) (ds : List STree) (hlen : oks.length = ds.length) :
    ∀ (ks : List Key) (cs : List STree), ks.length = cs.length → (∀ k ∈ ks, k ∈ oks) →
      STree.prefixD ks cs oks ds = STree.prefixL cs (pickD ks oks ds)
  | [], [], _, _ => by simp [STree.prefixD, STree.prefixL, pickD]
  | [], _ :: _, h, _ => by simp at h
  | _ :: _, [], h, _ => by simp at h
  | k :: ks, c :: cs, h, hm => by
      obtain ⟨j, hj⟩ := keyIndex_of_mem (hm k (by simp))
      have hjd : j < ds.length := hlen ▸ keyIndex_lt hj
      have hl : lookupChild k oks ds = some ds[j] := by
        rw [lookupChild_eq_getElem k oks ds hlen, hj]; simp [hjd]
      have ih := STree.prefixD_eq oks ds hlen ks cs (by simpa using h)
        (fun k' hk' => hm k' (by simp [hk']))
      rw [pickD_cons k ks oks ds _ hl]
      simp [STree.prefixD, STree.prefixL, hl, ih]

theorem STree.sameD_eq (oks : List Key) (ds : List STree) (hlen : oks.length = ds.length) :
    ∀ (ks : List Key) (cs : List STree), ks.length = cs.length → (∀ k ∈ ks, k ∈ oks) →
      STree.sameD ks cs oks ds = STree.sameL cs (pickD ks oks ds)
  | [], [], _, _ => by simp [STree.sameD, STree.sameL, pickD]
  | [], _ :: _, h, _ => by simp at h
  | _ :: _, [], h, _ => by simp at h
  | k :: ks, c :: cs, h, hm => by
      obtain ⟨j, hj⟩ := keyIndex_of_mem (hm k (by simp))
      have hjd : j < ds.length := hlen ▸ keyIndex_lt hj
      have hl : lookupChild k oks ds = some ds[j] := by
        rw [lookupChild_eq_getElem k oks ds hlen, hj]; simp [hjd]
      have ih := STree.sameD_eq oks ds hlen ks cs (by simpa using h)
        (fun k' hk' => hm k' (by simp [hk']))
      rw [pickD_cons k ks oks ds _ hl]
      simp [STree.sameD, STree.sameL, hl, ih]

/-- facts a well-formed dict-kind node provides -/
theorem STree.wf_node {i : NInfo} {cs : List STree} (h : (STree.node i cs).wf = true) :
    i.kind ≠ .leaf ∧ (i.kind = .none → cs = []) ∧
      (i.kind.isDict = true → i.keys.length = cs.length ∧ i.keys.Nodup) ∧ STree.wfL cs = true := by
  simp only [STree.wf, Bool.and_eq_true, bne_iff_ne, ne_eq, Bool.or_eq_true, Bool.not_eq_true',
    List.isEmpty_iff, beq_iff_eq, decide_eq_true_eq] at h
  obtain ⟨⟨⟨h1, h2⟩, h3⟩, h4⟩ := h
  refine ⟨h1, ?_, ?_, h4⟩
  · intro hk; rcases h2 with h2 | h2
    · exact absurd hk h2
    · exact h2
  · intro hd; rcases h3 with h3 | h3
    · rw [hd] at h3; simp at h3
    · exact h3

/-! ### a prefix is not larger -/

mutual
theorem STree.prefixB_size : ∀ a : STree, a.wf = true → ∀ b : STree, b.wf = true →
    a.prefixB b = true → a.size ≤ b.size
  | .leaf, _, b, _, _ => by have := STree.size_pos b; simp only [STree.size]; omega
  | .node i cs, ha, .leaf, _, h => by simp [STree.prefixB] at h
  | .node i cs, ha, .node j ds, hb, h => by
      obtain ⟨_, _, hda, hwa⟩ := STree.wf_node ha
      obtain ⟨_, _, hdb, hwb⟩ := STree.wf_node hb
      simp only [STree.size, Nat.add_le_add_iff_right]
      simp only [STree.prefixB, Bool.and_eq_true, beq_iff_eq] at h
      obtain ⟨⟨⟨hlen, _⟩, _⟩, hk⟩ := h
      cases hkind : i.kind <;> simp only [hkind, Bool.and_eq_true, Bool.false_eq_true] at hk
      case none => exact STree.prefixL_size cs hwa ds hwb hk.2
      case tuple => exact STree.prefixL_size cs hwa ds hwb hk.2
      case list => exact STree.prefixL_size cs hwa ds hwb hk.2
      case deque => exact STree.prefixL_size cs hwa ds hwb hk.2
      case namedtuple => exact STree.prefixL_size cs hwa ds hwb hk.2
      case structseq => exact STree.prefixL_size cs hwa ds hwb hk.2
      case custom => exact STree.prefixL_size cs hwa ds hwb hk.2
      all_goals
        obtain ⟨⟨hjd, hks⟩, hpd⟩ := hk
        obtain ⟨hla, hnda⟩ := hda (by simp [hkind, Kind.isDict])
        obtain ⟨hlb, hndb⟩ := hdb hjd
        have hmem := ((keySetEq_iff _ _).mp hks).2
        rw [STree.prefixD_eq j.keys ds hlb i.keys cs hla hmem] at hpd
        have hperm := pickD_perm hks hnda hndb hlb
        have := STree.prefixL_size cs hwa _ (STree.wfL_perm hperm hwb) hpd
        rw [STree.sizeL_perm hperm] at this
        exact this
theorem STree.prefixL_size : ∀ cs : List STree, STree.wfL cs = true → ∀ ds : List STree,
    STree.wfL ds = true → STree.prefixL cs ds = true → STree.sizeL cs ≤ STree.sizeL ds
  | [], _, [], _, _ => by simp [STree.sizeL]
  | [], _, _ :: _, _, h => by simp [STree.prefixL] at h
  | _ :: _, _, [], _, h => by simp [STree.prefixL] at h
  | c :: cs, hc, d :: ds, hd, h => by
      simp only [STree.wfL, Bool.and_eq_true] at hc hd
      simp only [STree.prefixL, Bool.and_eq_true] at h
      have h1 := STree.prefixB_size c hc.1 d hd.1 h.1
      have h2 := STree.prefixL_size cs hc.2 ds hd.2 h.2
      simp only [STree.sizeL]
      omega
end

/-! ### the array walk -/

def dataKeys (d : NodeData) : List Key :=
  match d with
  | .keys ks => ks
  | .ddict _ ks => ks
  | _ => []

theorem Node.keys_eq (n : Node) : n.keys = dataKeys n.data := rfl
theorem NInfo.keys_eq (i : NInfo) : i.keys = dataKeys i.data := rfl

theorem Kind.cases_eq (k : Kind) :
    k = .custom ∨ k = .leaf ∨ k = .none ∨ k = .tuple ∨ k = .list ∨ k = .dict ∨ k = .namedtuple ∨
      k = .ordereddict ∨ k = .defaultdict ∨ k = .deque ∨ k = .structseq := by
  cases k <;> simp

theorem STree.sameB_leaf_iff (b : STree) (hb : b.wf = true) :
    (b.root.kind == Kind.leaf) = STree.sameB .leaf b := by
  cases b with
  | leaf => simp [STree.root, STree.sameB, Node.leaf]
  | node j ds =>
    have := (STree.wf_node hb).1
    simp [STree.root, STree.sameB, NInfo.toNode, this]

mutual
theorem isPrefixGo_enc (strict : Bool) : ∀ a : STree, a.wf = true → ∀ b : STree, b.wf = true →
    ∀ (as bs : List Node) (m : Bool),
      isPrefixGo strict (a.renc ++ as) (b.renc ++ bs) m =
        if a.prefixB b then isPrefixGo strict as bs (m && a.sameB b) else .ok false
  | .leaf, _, b, hb, as, bs, m => by
      have hr : b.renc ++ bs = b.root :: (STree.rencL b.children ++ bs) := by
        rw [STree.renc_eq]; rfl
      have hlen : (b.renc ++ bs).length = b.size + bs.length := by
        simp [STree.renc_length]
      have hdrop : (b.renc ++ bs).drop b.size = bs := by
        rw [← STree.renc_length b, List.drop_left]
      have hpos := STree.size_pos b
      rw [show STree.leaf.renc = [Node.leaf] from rfl, List.singleton_append]
      rw [hr, isPrefixGo, ← hr]
      have h0 : (b.size == 0) = false := by simp; omega
      have hl : ¬ ((b.renc ++ bs).length < b.size) := by
        rw [hlen]; omega
      simp only [Node.leaf, beq_self_eq_true, if_true, STree.root_numNodes, h0, Bool.false_or,
        decide_eq_true_eq, hl, if_false, hdrop, STree.prefixB]
      rw [STree.sameB_leaf_iff b hb]
  | .node i cs, ha, .leaf, _, as, bs, m => by
      obtain ⟨hnl, _, _, _⟩ := STree.wf_node ha
      rw [STree.renc_eq, STree.renc_eq]
      simp only [List.cons_append, STree.children, STree.rencL_nil, List.nil_append]
      rw [isPrefixGo]
      have hk : (i.kind == Kind.leaf) = false := by simp [hnl]
      simp only [STree.root, NInfo.toNode, Node.leaf, STree.prefixB, Bool.false_eq_true, if_false, hk]
      rcases Kind.cases_eq i.kind with hkind | hkind | hkind | hkind | hkind | hkind | hkind | hkind |
          hkind | hkind | hkind <;>
        first
          | exact absurd hkind hnl
          | simp [hkind, Kind.isDict]
  | .node i cs, ha, .node j ds, hb, as, bs, m => by
      obtain ⟨hnl, _, hda, hwa⟩ := STree.wf_node ha
      obtain ⟨hnlb, _, hdb, hwb⟩ := STree.wf_node hb
      have hk : (i.kind == Kind.leaf) = false := by simp [hnl]
      -- the continuation after the root records matched
      have hcont : ∀ ds' : List STree, STree.wfL ds' = true → cs.length = ds'.length →
          STree.sizeL ds' = STree.sizeL ds →
          (if STree.sizeL cs + 1 > STree.sizeL ds + 1 then (Except.ok false : Except Err Bool)
           else isPrefixGo strict (STree.rencL cs ++ as) (STree.rencL ds' ++ bs) m) =
            if STree.prefixL cs ds' then isPrefixGo strict as bs (m && STree.sameL cs ds')
            else .ok false := by
        intro ds' hw' hl' hs'
        rw [isPrefixGo_encL strict cs hwa ds' hw' hl' as bs m]
        by_cases hp : STree.prefixL cs ds' = true
        · have := STree.prefixL_size cs hwa ds' hw' hp
          have hng : ¬ (STree.sizeL cs + 1 > STree.sizeL ds + 1) := by omega
          simp [hng]
        · simp [hp]
      rw [STree.renc_eq, STree.renc_eq]
      simp only [List.cons_append, STree.children]
      rw [isPrefixGo]
      simp only [STree.root, NInfo.toNode, hk, Bool.false_eq_true, if_false]
      by_cases hlen : ¬ (cs.length = ds.length)
      · simp [STree.prefixB, hlen]
      replace hlen : cs.length = ds.length := Classical.not_not.mp hlen
      by_cases hsome : ¬ (i.data.isSome = j.data.isSome)
      · simp [STree.prefixB, hsome]
      replace hsome : i.data.isSome = j.data.isSome := Classical.not_not.mp hsome
      by_cases hcus : ¬ (i.custom = j.custom)
      · simp [STree.prefixB, hcus]
      replace hcus : i.custom = j.custom := Classical.not_not.mp hcus
      simp only [hlen, hsome, hcus, bne_self_eq_false, Bool.or_self, Bool.false_eq_true, if_false]
      have hsimple : ∀ (extra : Bool),
          (if (i.kind != j.kind || extra) = true then (Except.ok false : Except Err Bool)
           else if STree.sizeL cs + 1 > STree.sizeL ds + 1 then .ok false
           else isPrefixGo strict (STree.rencL cs ++ as) (STree.rencL ds ++ bs) m) =
          if (i.kind == j.kind && !extra && STree.prefixL cs ds) = true then
            isPrefixGo strict as bs (m && STree.sameL cs ds) else .ok false := by
        intro extra
        by_cases hkk : i.kind = j.kind
        · cases extra
          · simp only [hkk, bne_self_eq_false, Bool.or_self, Bool.false_eq_true, if_false,
              beq_self_eq_true, Bool.not_false, Bool.and_self, Bool.true_and]
            exact hcont ds hwb hlen rfl
          · simp
        · simp [hkk]
      rcases Kind.cases_eq i.kind with hkind | hkind | hkind | hkind | hkind | hkind | hkind | hkind |
          hkind | hkind | hkind
      · have := hsimple (j.data.isSome && i.data != j.data)
        simp only [hkind] at this
        simp only [STree.prefixB, hlen, hsome, hcus, hkind, STree.sameB, Kind.isDict, beq_self_eq_true,
          Bool.true_and, Bool.false_eq_true, if_false]
        refine Eq.trans this ?_
        congr 1
        cases j.data.isSome <;> simp
      · exact absurd hkind hnl
      · have := hsimple false
        simp only [hkind, Bool.or_false, Bool.not_false, Bool.and_true] at this
        simp only [STree.prefixB, hlen, hsome, hcus, hkind, STree.sameB, Kind.isDict, beq_self_eq_true,
          Bool.true_and, Bool.false_eq_true, if_false]
        simpa using this
      · have := hsimple false
        simp only [hkind, Bool.or_false, Bool.not_false, Bool.and_true] at this
        simp only [STree.prefixB, hlen, hsome, hcus, hkind, STree.sameB, Kind.isDict, beq_self_eq_true,
          Bool.true_and, Bool.false_eq_true, if_false]
        simpa using this
      · have := hsimple false
        simp only [hkind, Bool.or_false, Bool.not_false, Bool.and_true] at this
        simp only [STree.prefixB, hlen, hsome, hcus, hkind, STree.sameB, Kind.isDict, beq_self_eq_true,
          Bool.true_and, Bool.false_eq_true, if_false]
        simpa using this
      · obtain ⟨hla, hnda⟩ := hda (by simp [hkind, Kind.isDict])
        have hisd : i.kind.isDict = true := by simp [hkind, Kind.isDict]
        simp only [STree.prefixB, hlen, hsome, hcus, hkind, STree.sameB, hisd, beq_self_eq_true,
          Bool.true_and, if_true]
        by_cases hjd : ¬ (j.kind.isDict = true)
        · simp [hjd]
        replace hjd : j.kind.isDict = true := Classical.not_not.mp hjd
        obtain ⟨hlb, hndb⟩ := hdb hjd
        simp only [hjd, Bool.not_true, Bool.false_eq_true, if_false, Node.keys_eq]
        simp only [← NInfo.keys_eq]
        by_cases hks : ¬ (keySetEq i.keys j.keys = true)
        · simp [hks]
        replace hks : keySetEq i.keys j.keys = true := Classical.not_not.mp hks
        have hmem := ((keySetEq_iff _ _).mp hks).2
        have hperm := pickD_perm hks hnda hndb hlb
        have hpl := pickD_length i.keys j.keys ds hlb hmem
        simp only [hks, Bool.not_true, Bool.false_eq_true, if_false, Bool.true_and]
        rw [STree.prefixD_eq j.keys ds hlb i.keys cs (by omega) hmem,
          STree.sameD_eq j.keys ds hlb i.keys cs (by omega) hmem]
        by_cases hkeq : i.keys = j.keys
        · have : pickD i.keys j.keys ds = ds := by rw [hkeq]; exact pickD_self j.keys ds hlb hndb
          rw [this]
          simp only [hkeq, bne_self_eq_false, Bool.false_eq_true, if_false]
          exact hcont ds hwb hlen rfl
        · have hne : (i.keys != j.keys) = true := by simp [hkeq]
          simp only [hne, if_true]
          rw [STree.rencL_eq_flatten ds, ← List.length_reverse (as := ds),
            cutSegments_flatten ds.reverse bs]
          simp only [sum_length_renc, List.length_reverse]
          have hsz : STree.sizeL ds.reverse = STree.sizeL ds :=
            STree.sizeL_perm (List.reverse_perm ds)
          simp only [hsz, bne_self_eq_false, Bool.false_eq_true, if_false]
          rw [reorderSegments_renc i.keys j.keys ds hlb hmem]
          simp only [rencL_pick_flatten]
          exact hcont _ (STree.wfL_perm hperm hwb) (by omega) (STree.sizeL_perm hperm)
      · have := hsimple (j.data.isSome && i.data != j.data)
        simp only [hkind] at this
        simp only [STree.prefixB, hlen, hsome, hcus, hkind, STree.sameB, Kind.isDict, beq_self_eq_true,
          Bool.true_and, Bool.false_eq_true, if_false]
        refine Eq.trans this ?_
        congr 1
        cases j.data.isSome <;> simp
      · obtain ⟨hla, hnda⟩ := hda (by simp [hkind, Kind.isDict])
        have hisd : i.kind.isDict = true := by simp [hkind, Kind.isDict]
        simp only [STree.prefixB, hlen, hsome, hcus, hkind, STree.sameB, hisd, beq_self_eq_true,
          Bool.true_and, if_true]
        by_cases hjd : ¬ (j.kind.isDict = true)
        · simp [hjd]
        replace hjd : j.kind.isDict = true := Classical.not_not.mp hjd
        obtain ⟨hlb, hndb⟩ := hdb hjd
        simp only [hjd, Bool.not_true, Bool.false_eq_true, if_false, Node.keys_eq]
        simp only [← NInfo.keys_eq]
        by_cases hks : ¬ (keySetEq i.keys j.keys = true)
        · simp [hks]
        replace hks : keySetEq i.keys j.keys = true := Classical.not_not.mp hks
        have hmem := ((keySetEq_iff _ _).mp hks).2
        have hperm := pickD_perm hks hnda hndb hlb
        have hpl := pickD_length i.keys j.keys ds hlb hmem
        simp only [hks, Bool.not_true, Bool.false_eq_true, if_false, Bool.true_and]
        rw [STree.prefixD_eq j.keys ds hlb i.keys cs (by omega) hmem,
          STree.sameD_eq j.keys ds hlb i.keys cs (by omega) hmem]
        by_cases hkeq : i.keys = j.keys
        · have : pickD i.keys j.keys ds = ds := by rw [hkeq]; exact pickD_self j.keys ds hlb hndb
          rw [this]
          simp only [hkeq, bne_self_eq_false, Bool.false_eq_true, if_false]
          exact hcont ds hwb hlen rfl
        · have hne : (i.keys != j.keys) = true := by simp [hkeq]
          simp only [hne, if_true]
          rw [STree.rencL_eq_flatten ds, ← List.length_reverse (as := ds),
            cutSegments_flatten ds.reverse bs]
          simp only [sum_length_renc, List.length_reverse]
          have hsz : STree.sizeL ds.reverse = STree.sizeL ds :=
            STree.sizeL_perm (List.reverse_perm ds)
          simp only [hsz, bne_self_eq_false, Bool.false_eq_true, if_false]
          rw [reorderSegments_renc i.keys j.keys ds hlb hmem]
          simp only [rencL_pick_flatten]
          exact hcont _ (STree.wfL_perm hperm hwb) (by omega) (STree.sizeL_perm hperm)
      · obtain ⟨hla, hnda⟩ := hda (by simp [hkind, Kind.isDict])
        have hisd : i.kind.isDict = true := by simp [hkind, Kind.isDict]
        simp only [STree.prefixB, hlen, hsome, hcus, hkind, STree.sameB, hisd, beq_self_eq_true,
          Bool.true_and, if_true]
        by_cases hjd : ¬ (j.kind.isDict = true)
        · simp [hjd]
        replace hjd : j.kind.isDict = true := Classical.not_not.mp hjd
        obtain ⟨hlb, hndb⟩ := hdb hjd
        simp only [hjd, Bool.not_true, Bool.false_eq_true, if_false, Node.keys_eq]
        simp only [← NInfo.keys_eq]
        by_cases hks : ¬ (keySetEq i.keys j.keys = true)
        · simp [hks]
        replace hks : keySetEq i.keys j.keys = true := Classical.not_not.mp hks
        have hmem := ((keySetEq_iff _ _).mp hks).2
        have hperm := pickD_perm hks hnda hndb hlb
        have hpl := pickD_length i.keys j.keys ds hlb hmem
        simp only [hks, Bool.not_true, Bool.false_eq_true, if_false, Bool.true_and]
        rw [STree.prefixD_eq j.keys ds hlb i.keys cs (by omega) hmem,
          STree.sameD_eq j.keys ds hlb i.keys cs (by omega) hmem]
        by_cases hkeq : i.keys = j.keys
        · have : pickD i.keys j.keys ds = ds := by rw [hkeq]; exact pickD_self j.keys ds hlb hndb
          rw [this]
          simp only [hkeq, bne_self_eq_false, Bool.false_eq_true, if_false]
          exact hcont ds hwb hlen rfl
        · have hne : (i.keys != j.keys) = true := by simp [hkeq]
          simp only [hne, if_true]
          rw [STree.rencL_eq_flatten ds, ← List.length_reverse (as := ds),
            cutSegments_flatten ds.reverse bs]
          simp only [sum_length_renc, List.length_reverse]
          have hsz : STree.sizeL ds.reverse = STree.sizeL ds :=
            STree.sizeL_perm (List.reverse_perm ds)
          simp only [hsz, bne_self_eq_false, Bool.false_eq_true, if_false]
          rw [reorderSegments_renc i.keys j.keys ds hlb hmem]
          simp only [rencL_pick_flatten]
          exact hcont _ (STree.wfL_perm hperm hwb) (by omega) (STree.sizeL_perm hperm)
      · have := hsimple false
        simp only [hkind, Bool.or_false, Bool.not_false, Bool.and_true] at this
        simp only [STree.prefixB, hlen, hsome, hcus, hkind, STree.sameB, Kind.isDict, beq_self_eq_true,
          Bool.true_and, Bool.false_eq_true, if_false]
        simpa using this
      · have := hsimple (j.data.isSome && i.data != j.data)
        simp only [hkind] at this
        simp only [STree.prefixB, hlen, hsome, hcus, hkind, STree.sameB, Kind.isDict, beq_self_eq_true,
          Bool.true_and, Bool.false_eq_true, if_false]
        refine Eq.trans this ?_
        congr 1
        cases j.data.isSome <;> simp
theorem isPrefixGo_encL (strict : Bool) : ∀ cs : List STree, STree.wfL cs = true →
    ∀ ds : List STree, STree.wfL ds = true → cs.length = ds.length →
    ∀ (as bs : List Node) (m : Bool),
      isPrefixGo strict (STree.rencL cs ++ as) (STree.rencL ds ++ bs) m =
        if STree.prefixL cs ds then isPrefixGo strict as bs (m && STree.sameL cs ds) else .ok false
  | [], _, [], _, _, as, bs, m => by
      simp [STree.rencL_nil, STree.prefixL, STree.sameL]
  | [], _, _ :: _, _, h, _, _, _ => by simp at h
  | _ :: _, _, [], _, h, _, _, _ => by simp at h
  | c :: cs, hc, d :: ds, hd, h, as, bs, m => by
      simp only [STree.wfL, Bool.and_eq_true] at hc hd
      simp only [STree.rencL_cons, List.append_assoc]
      rw [isPrefixGo_encL strict cs hc.2 ds hd.2 (by simpa using h)]
      simp only [STree.prefixL, STree.sameL]
      by_cases hp : STree.prefixL cs ds = true
      · simp only [hp, if_true, Bool.and_true]
        rw [isPrefixGo_enc strict c hc.1 d hd.1]
        by_cases hq : c.prefixB d = true
        · simp only [hq, if_true]
          congr 1
          cases m <;> cases STree.sameL cs ds <;> cases c.sameB d <;> rfl
        · simp [hq]
      · simp [hp]
end

end Optree
