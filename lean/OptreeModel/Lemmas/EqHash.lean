/-
  `equalTo` versus `hashInput` (helper lemmas for C06).
-/
import OptreeModel.Model.Compare

namespace Optree

/-- the part of a node that `EqualTo` compares -/
def Node.eqKey (n : Node) : Kind × Nat × NodeData × Option Reg × Nat × Nat :=
  (n.kind, n.arity, n.data, n.custom, n.numLeaves, n.numNodes)

theorem data_eq_of_isSome {x y : NodeData} (h1 : x.isSome = y.isSome)
    (h2 : ¬ (x.isSome = true ∧ x ≠ y)) : x = y := by
  cases x <;> cases y <;> simp_all [NodeData.isSome]

theorem nodesEq_true (xs ys : List Node) (h : nodesEq xs ys = .ok true) :
    xs.map Node.eqKey = ys.map Node.eqKey := by
  induction xs generalizing ys with
  | nil =>
    cases ys with
    | nil => rfl
    | cons _ _ => simp [nodesEq] at h
  | cons x xs ih =>
    cases ys with
    | nil => simp [nodesEq] at h
    | cons y ys =>
      unfold nodesEq at h
      split at h
      · simp at h
      · rename_i h1
        split at h
        · simp at h
        · rename_i h2
          split at h
          · simp at h
          · rename_i h3
            simp only [Bool.or_eq_true, bne_iff_ne, ne_eq, not_or, Decidable.not_not] at h1 h3
            simp only [Bool.and_eq_true, bne_iff_ne, ne_eq] at h2
            obtain ⟨⟨⟨hk, ha⟩, hd⟩, hc⟩ := h1
            have hdata := data_eq_of_isSome hd h2
            simp only [List.map_cons, List.cons.injEq]
            exact ⟨by simp [Node.eqKey, hk, ha, hdata, hc, h3.1, h3.2], ih ys h⟩

theorem hashData_congr (x y : Node) (h : x.eqKey = y.eqKey) : x.hashData = y.hashData := by
  simp only [Node.eqKey, Prod.mk.injEq] at h
  obtain ⟨hk, _, hd, hc, _, _⟩ := h
  simp [Node.hashData, Node.keys, hk, hd, hc]

theorem nodePart_congr (nodeFields : List String) (xs ys : List Node)
    (h : xs.map Node.eqKey = ys.map Node.eqKey) :
    (xs.flatMap fun n => nodeFields.flatMap fun f =>
      if f == "kind" then [HAtom.kind n.kind]
      else if f == "arity" then [HAtom.nat n.arity]
      else if f == "num_leaves" then [HAtom.nat n.numLeaves]
      else if f == "num_nodes" then [HAtom.nat n.numNodes]
      else if f == "data" then n.hashData
      else [HAtom.str ("?" ++ f)]) =
    (ys.flatMap fun n => nodeFields.flatMap fun f =>
      if f == "kind" then [HAtom.kind n.kind]
      else if f == "arity" then [HAtom.nat n.arity]
      else if f == "num_leaves" then [HAtom.nat n.numLeaves]
      else if f == "num_nodes" then [HAtom.nat n.numNodes]
      else if f == "data" then n.hashData
      else [HAtom.str ("?" ++ f)]) := by
  induction xs generalizing ys with
  | nil =>
    cases ys with
    | nil => rfl
    | cons _ _ => simp at h
  | cons x xs ih =>
    cases ys with
    | nil => simp at h
    | cons y ys =>
      simp only [List.map_cons, List.cons.injEq] at h
      obtain ⟨hxy, hrest⟩ := h
      simp only [List.flatMap_cons]
      rw [ih ys hrest]
      congr 1
      have hd := hashData_congr x y hxy
      simp only [Node.eqKey, Prod.mk.injEq] at hxy
      obtain ⟨hk, ha, _, _, hl, hn⟩ := hxy
      simp [hk, ha, hl, hn, hd]

end Optree
