/-
  The documented leaf order as a reference function, and `flattenGo` refines it (helper lemmas
  for C02 / C03).
-/
import OptreeModel.Lemmas.Roundtrip

namespace Optree

/-- the predicate says "leaf" (absent predicate: never) -/
def Cfg.predTrue (cfg : Cfg) (x : PyObj) : Bool :=
  match cfg.evalPred x with
  | .ok true => true
  | _ => false

mutual
/-- **Reference leaf order** (README): depth-first, left to right; sequences by position;
OrderedDict by insertion order; dict / defaultdict by `totalOrderSort` of the keys unless the
namespace is insertion-ordered (`sorted = false`); custom nodes in the order their flatten function
yields children; an object is a leaf if the predicate says so, or if it is not a registered /
built-in node; `None` is a childless node unless `none_is_leaf`. -/
def leavesOf (cfg : Cfg) (sorted : Bool) : PyObj → List PyObj
  | x@(.leaf _ _) => [x]
  | .none => if cfg.predTrue .none || cfg.noneIsLeaf then [.none] else []
  | x@(.tuple xs) => if cfg.predTrue x then [x] else leavesOfList cfg sorted xs
  | x@(.list xs) => if cfg.predTrue x then [x] else leavesOfList cfg sorted xs
  | x@(.deque _ xs) => if cfg.predTrue x then [x] else leavesOfList cfg sorted xs
  | x@(.dict kvs) =>
      if cfg.predTrue x then [x]
      else ((dictOrder false sorted (leavesOfKVs cfg sorted kvs)).map (·.2)).flatten
  | x@(.odict kvs) =>
      if cfg.predTrue x then [x] else ((leavesOfKVs cfg sorted kvs).map (·.2)).flatten
  | x@(.ddict _ kvs) =>
      if cfg.predTrue x then [x]
      else ((dictOrder false sorted (leavesOfKVs cfg sorted kvs)).map (·.2)).flatten
  | x@(.ntuple _ xs) => if cfg.predTrue x then [x] else leavesOfList cfg sorted xs
  | x@(.sseq _ xs) => if cfg.predTrue x then [x] else leavesOfList cfg sorted xs
  | x@(.user cls _ _ xs) =>
      if cfg.predTrue x then [x]
      else match cfg.reg.lookup cfg.ns 0 cls with
        | some _ => leavesOfList cfg sorted xs
        | Option.none => [x]
def leavesOfList (cfg : Cfg) (sorted : Bool) : List PyObj → List PyObj
  | [] => []
  | x :: xs => leavesOf cfg sorted x ++ leavesOfList cfg sorted xs
def leavesOfKVs (cfg : Cfg) (sorted : Bool) : List (Key × PyObj) → List (Key × List PyObj)
  | [] => []
  | (k, x) :: xs => (k, leavesOf cfg sorted x) :: leavesOfKVs cfg sorted xs
end

theorem leavesOfList_eq (cfg : Cfg) (s : Bool) (xs : List PyObj) :
    leavesOfList cfg s xs = (xs.map (leavesOf cfg s)).flatten := by
  induction xs with
  | nil => simp [leavesOfList]
  | cons x xs ih => simp [leavesOfList, ih]

theorem leavesOfKVs_eq (cfg : Cfg) (s : Bool) (kvs : List (Key × PyObj)) :
    leavesOfKVs cfg s kvs = kvs.map (fun p => (p.1, leavesOf cfg s p.2)) := by
  induction kvs with
  | nil => simp [leavesOfKVs]
  | cons p kvs ih =>
    obtain ⟨k, x⟩ := p
    simp [leavesOfKVs, ih]

/-- leaves of a sequenced result are the concatenation of the children's leaves -/
theorem seqOuts_leaves (ps : List (Except Err FlatOut × List PyObj))
    (h : ∀ p ∈ ps, ∀ o, p.1 = .ok o → o.leaves = p.2)
    (b : FlatOut) (hb : seqOuts (ps.map (·.1)) = .ok b) : b.leaves = (ps.map (·.2)).flatten := by
  induction ps generalizing b with
  | nil =>
    simp [seqOuts] at hb
    subst hb
    rfl
  | cons p ps ih =>
    simp only [List.map_cons] at hb ⊢
    unfold seqOuts at hb
    split at hb
    · simp at hb
    · rename_i a ha
      split at hb
      · simp at hb
      · rename_i b' hb'
        simp at hb
        subst hb
        simp [FlatOut.append, h p (by simp) a ha, ih (fun q hq => h q (by simp [hq])) b' hb']

theorem closeSeq_leaves (ps : List (Except Err FlatOut × List PyObj))
    (h : ∀ p ∈ ps, ∀ o, p.1 = .ok o → o.leaves = p.2)
    (kind : Kind) (n : Nat) (data : NodeData) (entries : Option (List Key)) (custom : Option Reg)
    (okeys : Option (List Key)) (out : FlatOut)
    (hout : closeSeq (ps.map (·.1)) kind n data entries custom okeys = .ok out) :
    out.leaves = (ps.map (·.2)).flatten := by
  unfold closeSeq at hout
  split at hout
  · simp at hout
  · rename_i b hb
    simp at hout
    subst hout
    simpa [FlatOut.close] using seqOuts_leaves ps h b hb

/-- what a successful prelude tells about the predicate -/
theorem flattenGo_prelude_pred (cfg : Cfg) (d : Nat) (x : PyObj) (out : FlatOut)
    (body : Except Err FlatOut)
    (h : (if d > cfg.maxDepth then Except.error Err.recursion
      else match cfg.evalPred x with
        | .error e => .error e
        | .ok true => .ok (leafOut x)
        | .ok false => body) = .ok out) :
    (cfg.predTrue x = true ∧ out = leafOut x) ∨ (cfg.predTrue x = false ∧ body = .ok out) := by
  split at h
  · simp at h
  · unfold Cfg.predTrue
    split at h
    · simp at h
    · rename_i hp
      left; simp at h; simp [hp, h]
    · rename_i hp
      right; simp [hp, h]

/-- statement proved by mutual induction -/
def Lobj (cfg : Cfg) (s : Bool) (t : PyObj) : Prop :=
  ∀ d out, flattenGo cfg s d t = .ok out → out.leaves = leavesOf cfg s t

theorem lobj_list_like (cfg : Cfg) (s : Bool) (xs : List PyObj) (ih : ∀ x ∈ xs, Lobj cfg s x)
    (d : Nat) (kind : Kind) (data : NodeData) (out : FlatOut)
    (h : closeSeq (flattenList cfg s d xs) kind xs.length data Option.none Option.none Option.none
      = .ok out) : out.leaves = leavesOfList cfg s xs := by
  rw [flattenList_eq] at h
  let ps := xs.map fun x => (flattenGo cfg s d x, leavesOf cfg s x)
  have h1 : ps.map (·.1) = xs.map (flattenGo cfg s d) := by simp [ps, List.map_map, Function.comp_def]
  have h2 : ps.map (·.2) = xs.map (leavesOf cfg s) := by simp [ps, List.map_map, Function.comp_def]
  rw [← h1] at h
  rw [leavesOfList_eq, ← h2]
  apply closeSeq_leaves ps _ _ _ _ _ _ _ out h
  intro p hp o ho
  simp only [ps, List.mem_map] at hp
  obtain ⟨x, hx, rfl⟩ := hp
  exact ih x hx d o ho

theorem lobj_dict_like (cfg : Cfg) (s : Bool) (kvs perm : List (Key × PyObj))
    (hsub : ∀ p ∈ perm, p ∈ kvs) (ih : ∀ p ∈ kvs, Lobj cfg s p.2) (d : Nat)
    (kind : Kind) (data : NodeData) (okeys : Option (List Key)) (out : FlatOut)
    (h : closeSeq ((perm.map fun p => (p.1, flattenGo cfg s d p.2)).map (·.2)) kind kvs.length
      data Option.none Option.none okeys = .ok out) :
    out.leaves = ((perm.map fun p => (p.1, leavesOf cfg s p.2)).map (·.2)).flatten := by
  let ps := perm.map fun p => (flattenGo cfg s d p.2, leavesOf cfg s p.2)
  have h1 : ps.map (·.1) = (perm.map fun p => (p.1, flattenGo cfg s d p.2)).map (·.2) := by
    simp [ps, List.map_map, Function.comp_def]
  have h2 : ps.map (·.2) = (perm.map fun p => (p.1, leavesOf cfg s p.2)).map (·.2) := by
    simp [ps, List.map_map, Function.comp_def]
  rw [← h1] at h
  rw [← h2]
  apply closeSeq_leaves ps _ _ _ _ _ _ _ out h
  intro p hp o ho
  simp only [ps, List.mem_map] at hp
  obtain ⟨q, hq, rfl⟩ := hp
  exact ih q (hsub q hq) d o ho

theorem customFlatten_leaves (cfg : Cfg) (s : Bool) (reg : Reg) (co : CustomOut) (xs : List PyObj)
    (ih : ∀ x ∈ xs, Lobj cfg s x) (d : Nat) (out : FlatOut)
    (h : customFlatten reg co (flattenList cfg s d xs) = .ok out) :
    out.leaves = leavesOfList cfg s xs := by
  unfold customFlatten at h
  split at h; · simp at h
  split at h; · simp at h
  split at h; · simp at h
  rename_i body hb
  simp only at h
  split at h; · simp at h
  simp at h
  subst h
  rw [flattenList_eq] at hb
  let ps := xs.map fun x => (flattenGo cfg s d x, leavesOf cfg s x)
  have h1 : ps.map (·.1) = xs.map (flattenGo cfg s d) := by simp [ps, List.map_map, Function.comp_def]
  have h2 : ps.map (·.2) = xs.map (leavesOf cfg s) := by simp [ps, List.map_map, Function.comp_def]
  rw [← h1] at hb
  rw [leavesOfList_eq, ← h2]
  simp only [FlatOut.close]
  apply seqOuts_leaves ps _ body hb
  intro p hp o ho
  simp only [ps, List.mem_map] at hp
  obtain ⟨x, hx, rfl⟩ := hp
  exact ih x hx d o ho

mutual
theorem lobj (cfg : Cfg) (s : Bool) : ∀ t : PyObj, Lobj cfg s t
  | .leaf ty uid => by
      intro d out h
      rw [flattenGo] at h
      rcases flattenGo_prelude_pred cfg d _ out _ h with ⟨_, h⟩ | ⟨_, h⟩
      · subst h; simp [leafOut, leavesOf]
      · simp at h; subst h; simp [leafOut, leavesOf]
  | .none => by
      intro d out h
      rw [flattenGo] at h
      rcases flattenGo_prelude_pred cfg d _ out _ h with ⟨hp, h⟩ | ⟨hp, h⟩
      · subst h; simp [leafOut, leavesOf, hp]
      · split at h
        · rename_i hn; simp at h; subst h; simp [leafOut, leavesOf, hn]
        · rename_i hn; simp at h; subst h; simp [FlatOut.close, FlatOut.empty, leavesOf, hp, hn]
  | .tuple xs => by
      intro d out h
      rw [flattenGo] at h
      rcases flattenGo_prelude_pred cfg d _ out _ h with ⟨hp, h⟩ | ⟨hp, h⟩
      · subst h; simp [leafOut, leavesOf, hp]
      · simp only [leavesOf, hp, Bool.false_eq_true, if_false]
        exact lobj_list_like cfg s xs (llist cfg s xs) (d + 1) _ _ out h
  | .list xs => by
      intro d out h
      rw [flattenGo] at h
      rcases flattenGo_prelude_pred cfg d _ out _ h with ⟨hp, h⟩ | ⟨hp, h⟩
      · subst h; simp [leafOut, leavesOf, hp]
      · simp only [leavesOf, hp, Bool.false_eq_true, if_false]
        exact lobj_list_like cfg s xs (llist cfg s xs) (d + 1) _ _ out h
  | .deque m xs => by
      intro d out h
      rw [flattenGo] at h
      rcases flattenGo_prelude_pred cfg d _ out _ h with ⟨hp, h⟩ | ⟨hp, h⟩
      · subst h; simp [leafOut, leavesOf, hp]
      · simp only [leavesOf, hp, Bool.false_eq_true, if_false]
        exact lobj_list_like cfg s xs (llist cfg s xs) (d + 1) _ _ out h
  | .dict kvs => by
      intro d out h
      rw [flattenGo] at h
      rcases flattenGo_prelude_pred cfg d _ out _ h with ⟨hp, h⟩ | ⟨hp, h⟩
      · subst h; simp [leafOut, leavesOf, hp]
      · simp only [leavesOf, hp, Bool.false_eq_true, if_false]
        simp only [flattenKVs_eq] at h
        rw [dictOrder_map false s (fun p => (p.1, flattenGo cfg s (d + 1) p.2)) (by intro p; rfl)] at h
        rw [leavesOfKVs_eq,
          dictOrder_map false s (fun p => (p.1, leavesOf cfg s p.2)) (by intro p; rfl)]
        exact lobj_dict_like cfg s kvs _ (fun p hp => (dictOrder_perm false s kvs).subset hp)
          (lkvs cfg s kvs) (d + 1) _ _ _ out h
  | .odict kvs => by
      intro d out h
      rw [flattenGo] at h
      rcases flattenGo_prelude_pred cfg d _ out _ h with ⟨hp, h⟩ | ⟨hp, h⟩
      · subst h; simp [leafOut, leavesOf, hp]
      · simp only [leavesOf, hp, Bool.false_eq_true, if_false]
        simp only [flattenKVs_eq] at h
        rw [leavesOfKVs_eq]
        exact lobj_dict_like cfg s kvs kvs (fun p hp => hp) (lkvs cfg s kvs) (d + 1) _ _ _ out h
  | .ddict f kvs => by
      intro d out h
      rw [flattenGo] at h
      rcases flattenGo_prelude_pred cfg d _ out _ h with ⟨hp, h⟩ | ⟨hp, h⟩
      · subst h; simp [leafOut, leavesOf, hp]
      · simp only [leavesOf, hp, Bool.false_eq_true, if_false]
        simp only [flattenKVs_eq] at h
        rw [dictOrder_map false s (fun p => (p.1, flattenGo cfg s (d + 1) p.2)) (by intro p; rfl)] at h
        rw [leavesOfKVs_eq,
          dictOrder_map false s (fun p => (p.1, leavesOf cfg s p.2)) (by intro p; rfl)]
        exact lobj_dict_like cfg s kvs _ (fun p hp => (dictOrder_perm false s kvs).subset hp)
          (lkvs cfg s kvs) (d + 1) _ _ _ out h
  | .ntuple cls xs => by
      intro d out h
      rw [flattenGo] at h
      rcases flattenGo_prelude_pred cfg d _ out _ h with ⟨hp, h⟩ | ⟨hp, h⟩
      · subst h; simp [leafOut, leavesOf, hp]
      · simp only [leavesOf, hp, Bool.false_eq_true, if_false]
        split at h
        · exact customFlatten_leaves cfg s _ _ xs (llist cfg s xs) (d + 1) out h
        · exact lobj_list_like cfg s xs (llist cfg s xs) (d + 1) _ _ out h
  | .sseq cls xs => by
      intro d out h
      rw [flattenGo] at h
      rcases flattenGo_prelude_pred cfg d _ out _ h with ⟨hp, h⟩ | ⟨hp, h⟩
      · subst h; simp [leafOut, leavesOf, hp]
      · simp only [leavesOf, hp, Bool.false_eq_true, if_false]
        split at h
        · exact customFlatten_leaves cfg s _ _ xs (llist cfg s xs) (d + 1) out h
        · exact lobj_list_like cfg s xs (llist cfg s xs) (d + 1) _ _ out h
  | .user cls md q xs => by
      intro d out h
      rw [flattenGo] at h
      rcases flattenGo_prelude_pred cfg d _ out _ h with ⟨hp, h⟩ | ⟨hp, h⟩
      · subst h; simp [leafOut, leavesOf, hp]
      · simp only [leavesOf, hp, Bool.false_eq_true, if_false]
        split at h
        · rename_i reg hl
          simp only [hl]
          exact customFlatten_leaves cfg s _ _ xs (llist cfg s xs) (d + 1) out h
        · rename_i hl
          simp only [hl]
          simp at h; subst h; simp [leafOut]
theorem llist (cfg : Cfg) (s : Bool) : ∀ xs : List PyObj, ∀ x ∈ xs, Lobj cfg s x
  | [] => by intro x hx; simp at hx
  | y :: ys => by
      intro x hx
      simp only [List.mem_cons] at hx
      rcases hx with hx | hx
      · subst hx; exact lobj cfg s x
      · exact llist cfg s ys x hx
theorem lkvs (cfg : Cfg) (s : Bool) : ∀ kvs : List (Key × PyObj), ∀ p ∈ kvs, Lobj cfg s p.2
  | [] => by intro p hp; simp at hp
  | (k, y) :: ys => by
      intro p hp
      simp only [List.mem_cons] at hp
      rcases hp with hp | hp
      · subst hp; exact lobj cfg s y
      · exact lkvs cfg s ys p hp
end

end Optree

namespace Optree

/-! ### a generic homomorphism lemma between the leaf lists of two configurations -/

structure LeafHom (F : List PyObj → List PyObj) (cfg1 cfg2 : Cfg) (s : Bool) : Prop where
  nil : F [] = []
  add : ∀ a b, F (a ++ b) = F a ++ F b
  reg : cfg1.reg = cfg2.reg
  ns : cfg1.ns = cfg2.ns
  predT : ∀ x, cfg1.predTrue x = true → F [x] = leavesOf cfg2 s x
  predF : ∀ x, cfg1.predTrue x = false → cfg2.predTrue x = false
  leafObj : ∀ ty uid, cfg1.predTrue (.leaf ty uid) = false → F [.leaf ty uid] = [.leaf ty uid]
  userObj : ∀ c m q xs, cfg1.predTrue (.user c m q xs) = false →
    cfg2.reg.lookup cfg2.ns 0 c = Option.none → F [.user c m q xs] = [.user c m q xs]
  noneObj : cfg1.predTrue .none = false →
    F (if cfg1.noneIsLeaf then [PyObj.none] else []) = (if cfg2.noneIsLeaf then [PyObj.none] else [])

theorem LeafHom.flatten {F : List PyObj → List PyObj} {cfg1 cfg2 : Cfg} {s : Bool}
    (H : LeafHom F cfg1 cfg2 s) (ls : List (List PyObj)) : F ls.flatten = (ls.map F).flatten := by
  induction ls with
  | nil => simp [H.nil]
  | cons l ls ih => simp [H.add, ih]

def Hobj (F : List PyObj → List PyObj) (cfg1 cfg2 : Cfg) (s : Bool) (t : PyObj) : Prop :=
  F (leavesOf cfg1 s t) = leavesOf cfg2 s t

theorem hobj_list {F : List PyObj → List PyObj} {cfg1 cfg2 : Cfg} {s : Bool}
    (H : LeafHom F cfg1 cfg2 s) (xs : List PyObj) (ih : ∀ x ∈ xs, Hobj F cfg1 cfg2 s x) :
    F (leavesOfList cfg1 s xs) = leavesOfList cfg2 s xs := by
  rw [leavesOfList_eq, leavesOfList_eq, H.flatten, List.map_map]
  congr 1
  apply List.map_congr_left
  intro x hx
  exact ih x hx

theorem hobj_kvs {F : List PyObj → List PyObj} {cfg1 cfg2 : Cfg} {s : Bool}
    (H : LeafHom F cfg1 cfg2 s) (kvs perm : List (Key × PyObj)) (hsub : ∀ p ∈ perm, p ∈ kvs)
    (ih : ∀ p ∈ kvs, Hobj F cfg1 cfg2 s p.2) :
    F ((perm.map fun p => (p.1, leavesOf cfg1 s p.2)).map (·.2)).flatten =
      ((perm.map fun p => (p.1, leavesOf cfg2 s p.2)).map (·.2)).flatten := by
  rw [H.flatten]
  simp only [List.map_map, Function.comp_def]
  congr 1
  apply List.map_congr_left
  intro p hp
  exact ih p (hsub p hp)

mutual
theorem hobj {F : List PyObj → List PyObj} {cfg1 cfg2 : Cfg} {s : Bool}
    (H : LeafHom F cfg1 cfg2 s) : ∀ t : PyObj, Hobj F cfg1 cfg2 s t
  | .leaf ty uid => by
      unfold Hobj
      by_cases hp : cfg1.predTrue (.leaf ty uid) = true
      · simpa [leavesOf] using H.predT _ hp
      · simp only [Bool.not_eq_true] at hp
        simpa [leavesOf] using H.leafObj ty uid hp
  | .none => by
      unfold Hobj
      by_cases hp : cfg1.predTrue .none = true
      · have := H.predT _ hp
        simpa [leavesOf, hp] using this
      · simp only [Bool.not_eq_true] at hp
        have h2 := H.predF _ hp
        have := H.noneObj hp
        simpa [leavesOf, hp, h2] using this
  | .tuple xs => by
      unfold Hobj
      by_cases hp : cfg1.predTrue (.tuple xs) = true
      · simpa [leavesOf, hp] using H.predT _ hp
      · simp only [Bool.not_eq_true] at hp
        simp only [leavesOf, hp, H.predF _ hp, Bool.false_eq_true, if_false]
        exact hobj_list H xs (hlist H xs)
  | .list xs => by
      unfold Hobj
      by_cases hp : cfg1.predTrue (.list xs) = true
      · simpa [leavesOf, hp] using H.predT _ hp
      · simp only [Bool.not_eq_true] at hp
        simp only [leavesOf, hp, H.predF _ hp, Bool.false_eq_true, if_false]
        exact hobj_list H xs (hlist H xs)
  | .deque m xs => by
      unfold Hobj
      by_cases hp : cfg1.predTrue (.deque m xs) = true
      · simpa [leavesOf, hp] using H.predT _ hp
      · simp only [Bool.not_eq_true] at hp
        simp only [leavesOf, hp, H.predF _ hp, Bool.false_eq_true, if_false]
        exact hobj_list H xs (hlist H xs)
  | .ntuple c xs => by
      unfold Hobj
      by_cases hp : cfg1.predTrue (.ntuple c xs) = true
      · simpa [leavesOf, hp] using H.predT _ hp
      · simp only [Bool.not_eq_true] at hp
        simp only [leavesOf, hp, H.predF _ hp, Bool.false_eq_true, if_false]
        exact hobj_list H xs (hlist H xs)
  | .sseq c xs => by
      unfold Hobj
      by_cases hp : cfg1.predTrue (.sseq c xs) = true
      · simpa [leavesOf, hp] using H.predT _ hp
      · simp only [Bool.not_eq_true] at hp
        simp only [leavesOf, hp, H.predF _ hp, Bool.false_eq_true, if_false]
        exact hobj_list H xs (hlist H xs)
  | .dict kvs => by
      unfold Hobj
      by_cases hp : cfg1.predTrue (.dict kvs) = true
      · simpa [leavesOf, hp] using H.predT _ hp
      · simp only [Bool.not_eq_true] at hp
        simp only [leavesOf, hp, H.predF _ hp, Bool.false_eq_true, if_false, leavesOfKVs_eq]
        rw [dictOrder_map false s (fun p => (p.1, leavesOf cfg1 s p.2)) (by intro p; rfl),
          dictOrder_map false s (fun p => (p.1, leavesOf cfg2 s p.2)) (by intro p; rfl)]
        exact hobj_kvs H kvs _ (fun p hp => (dictOrder_perm false s kvs).subset hp) (hkvs H kvs)
  | .odict kvs => by
      unfold Hobj
      by_cases hp : cfg1.predTrue (.odict kvs) = true
      · simpa [leavesOf, hp] using H.predT _ hp
      · simp only [Bool.not_eq_true] at hp
        simp only [leavesOf, hp, H.predF _ hp, Bool.false_eq_true, if_false, leavesOfKVs_eq]
        exact hobj_kvs H kvs kvs (fun p hp => hp) (hkvs H kvs)
  | .ddict f kvs => by
      unfold Hobj
      by_cases hp : cfg1.predTrue (.ddict f kvs) = true
      · simpa [leavesOf, hp] using H.predT _ hp
      · simp only [Bool.not_eq_true] at hp
        simp only [leavesOf, hp, H.predF _ hp, Bool.false_eq_true, if_false, leavesOfKVs_eq]
        rw [dictOrder_map false s (fun p => (p.1, leavesOf cfg1 s p.2)) (by intro p; rfl),
          dictOrder_map false s (fun p => (p.1, leavesOf cfg2 s p.2)) (by intro p; rfl)]
        exact hobj_kvs H kvs _ (fun p hp => (dictOrder_perm false s kvs).subset hp) (hkvs H kvs)
  | .user c m q xs => by
      unfold Hobj
      by_cases hp : cfg1.predTrue (.user c m q xs) = true
      · simpa [leavesOf, hp] using H.predT _ hp
      · simp only [Bool.not_eq_true] at hp
        simp only [leavesOf, hp, H.predF _ hp, Bool.false_eq_true, if_false, H.reg, H.ns]
        split
        · exact hobj_list H xs (hlist H xs)
        · rename_i hl
          exact H.userObj c m q xs hp hl
theorem hlist {F : List PyObj → List PyObj} {cfg1 cfg2 : Cfg} {s : Bool}
    (H : LeafHom F cfg1 cfg2 s) : ∀ xs : List PyObj, ∀ x ∈ xs, Hobj F cfg1 cfg2 s x
  | [] => by intro x hx; simp at hx
  | y :: ys => by
      intro x hx
      simp only [List.mem_cons] at hx
      rcases hx with hx | hx
      · subst hx; exact hobj H x
      · exact hlist H ys x hx
theorem hkvs {F : List PyObj → List PyObj} {cfg1 cfg2 : Cfg} {s : Bool}
    (H : LeafHom F cfg1 cfg2 s) : ∀ kvs : List (Key × PyObj), ∀ p ∈ kvs, Hobj F cfg1 cfg2 s p.2
  | [] => by intro p hp; simp at hp
  | (k, y) :: ys => by
      intro p hp
      simp only [List.mem_cons] at hp
      rcases hp with hp | hp
      · subst hp; exact hobj H y
      · exact hkvs H ys p hp
end

end Optree
