#!/bin/bash
# Offline set-up: build the Lean project (model, lemmas, property theorems, driver executable).
# No network, no implementation build (each check builds /repo's working tree itself).
set -e
cd "$(dirname "$0")/lean"
lake build 2>&1 | tail -5
test -x .lake/build/bin/driver
echo "setup ok"
