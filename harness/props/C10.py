"""C10  Transposition swaps outer and inner structure without losing or moving values."""

from __future__ import annotations

from sexp import A, Atom, parse, render
from props.common import in_cfg, op
from gen import relabel_leaves

RULE = ('(outer, inner) pairs of pytrees with at least one leaf each (plus empty / mismatching corner cases), the '
        'composed tree, and functions returning trees of a fixed or varying inner shape; distinct by request text; '
        'non-trivial = outer has an internal node')


def compose_tree(gen, outer, inner, nil=False):
    """outer-shaped tree whose every leaf is a fresh inner-shaped tree"""
    from gen import map_children
    if isinstance(outer, Atom):
        return relabel_leaves(gen, inner) if nil else outer
    if outer[0] == 'L':
        return relabel_leaves(gen, inner)
    return map_children(outer, lambda c: compose_tree(gen, c, inner, nil))


def only_registered(gen, t, ns):
    from gen import map_children
    allowed = [0, 1, 3, 6] + ([2] if ns == 'a' else []) + ([4] if ns == 'b' else [])
    if isinstance(t, Atom) or t[0] == 'L':
        return t
    t = map_children(t, lambda c: only_registered(gen, c, ns))
    if t[0] == 'U' and int(t[1]) not in allowed:
        t = list(t)
        t[1] = gen.rng.choice(allowed)
    return t


def generate(gen, tier):
    rng = gen.rng
    n = 200 if tier == 'quick' else 6000
    cases = []
    kinds = ['T', 'l', 'D', 'O', 'DD', 'Q', 'NT', 'SS', 'U', 'N', 'L']
    for i in range(n):
        # no predicate, no unregistered user classes inside (they would swallow the inner trees)
        ns = rng.choice(['', 'a', 'b'])
        cfg = gen.cfg(ns=ns, pred=0)
        outer = gen.tree(depth=rng.choice([1, 2, 2]), width=3, weights=[3, 3, 3, 2, 2, 2, 1, 0, 2, 1, 3])
        inner = gen.tree(depth=rng.choice([1, 2]), width=3, weights=[3, 3, 3, 2, 2, 2, 1, 0, 2, 1, 3])
        outer, inner = only_registered(gen, outer, ns), only_registered(gen, inner, ns)
        if ns in ('a', 'b') and rng.random() < 0.35:
            # outer without custom nodes (its treespec records no namespace), inner with a node that is
            # registered in the namespace only
            outer = gen.tree(depth=rng.choice([1, 2]), width=3, kinds=['T', 'l', 'D', 'O', 'Q', 'L'])
            special = [A('U'), 2 if ns == 'a' else 4, gen.md(), A('ok'), *[gen.leaf(0) for _ in range(rng.choice([1, 2]))]]
            inner = rng.choice([special, [A('T'), special, gen.leaf(0)], [A('l'), special]])
        cls = rng.choices(['ok', 'wrong-count', 'nil-mismatch', 'ns-mismatch'], weights=[80, 10, 5, 5])[0]
        cfg_i = cfg
        if cls == 'nil-mismatch':
            cfg_i = [cfg[0], A('0' if cfg[1] == '1' else '1'), cfg[2], cfg[3], cfg[4]]
        if cls == 'ns-mismatch':
            cfg_i = [cfg[0], cfg[1], rng.choice(['a', 'b', '']), cfg[3], cfg[4]]
        t = compose_tree(gen, outer, inner, nil=(cfg[1] == '1'))
        if cls == 'wrong-count':
            t = [A('T'), t, gen.leaf(0)]
        so, si = [A('structure'), cfg, outer], [A('structure'), cfg_i, inner]
        fid = rng.choice([1, 2, 5, 6])
        if ns in ('a', 'b') and rng.random() < 0.5:
            # the mapped function returns a node registered in the namespace only (the outer tree need not contain one)
            fid = rng.choice([7 if ns == 'a' else 8, 9])
        variant = rng.choice(['plain', 'path', 'acc'])
        lines = [op('transpose', cfg, so, si, t),
                 op('transpose_map', A(variant), cfg, fid, A('-'), outer),
                 op('transpose_map', A(rng.choice(['plain', 'path', 'acc'])), cfg, rng.choice([7, 8, 9]), A('-'), outer,
                    relabel_leaves(gen, outer)),
                 # under a predicate that makes the mapped function's results (or parts of them) leaves: the inner structure
                 # taken from the first result has to be read with the same predicate
                 op('transpose_map', A(rng.choice(['plain', 'path', 'acc'])), [cfg[0], cfg[1], cfg[2], rng.choice([1, 2, 6]), cfg[4]],
                    rng.choice([2, 5, 6]), A('-'), outer),
                 op('transpose_map', A('plain'), cfg, 6, [A('structure'), cfg, [A('D'), [[A('s'), 'a'], [A('l'), gen.leaf(0), A('N')]], [[A('s'), 'b'], gen.leaf(0)]]], outer)]
        cases.append({'lines': lines, 'o': {'cfg': render(cfg), 'cfg_i': render(cfg_i), 'outer': render(outer),
                                            'inner': render(inner), 'tree': render(t), 'class': cls}})
    return cases


def nontrivial(case):
    t = parse(case['o']['outer'])
    return not isinstance(t, Atom) and t[0] != 'L'


def distribution(cases):
    d = {}
    for c in cases:
        d[c['o']['class']] = d.get(c['o']['class'], 0) + 1
    return {'classes': d}


class _Mark:
    def __repr__(self):
        return 'MARK'


_MARK = _Mark()


def outcome(f):
    try:
        return ('ok', f())
    except Exception as e:  # noqa: BLE001
        return ('err', type(e).__name__, str(e)[:120])


def oracle(impl, o):
    import optree
    u = impl.u
    fails = []
    outer_t, inner_t, tree = u.obj(parse(o['outer'])), u.obj(parse(o['inner'])), u.obj(parse(o['tree']))
    with in_cfg(impl, o['cfg']) as kw:
        with in_cfg(impl, o['cfg_i']) as kwi:
            try:
                outer = optree.tree_structure(outer_t, **kw)
                inner = optree.tree_structure(inner_t, **kwi)
            except Exception:
                return []
        m, n = outer.num_leaves, inner.num_leaves
        r = outcome(lambda: optree.tree_transpose(outer, inner, tree))
        ns_conflict = bool(outer.namespace and inner.namespace and outer.namespace != inner.namespace)
        must_fail = m == 0 or n == 0 or outer.none_is_leaf != inner.none_is_leaf or ns_conflict
        if must_fail:
            if r[0] == 'ok':
                fails.append({'key': 'transpose-accepts-bad-input', 'what': f'm={m} n={n} none_is_leaf/namespace mismatch but tree_transpose succeeded'})
            return fails
        kwt = {'none_is_leaf': outer.none_is_leaf, 'namespace': outer.namespace or inner.namespace}
        leaves = optree.tree_leaves(tree, **kwt)
        if len(leaves) != m * n:
            if r[0] == 'ok':
                fails.append({'key': 'transpose-wrong-count', 'what': 'wrong leaf count accepted'})
            return fails
        if o['class'] != 'ok':
            return fails
        if r[0] != 'ok':
            fails.append({'key': 'transpose-raises', 'what': f'tree_transpose raised {r[1]}: {r[2]}'})
            return fails
        out = r[1]
        expect = inner.compose(outer)
        got = optree.tree_structure(out, **kwt)
        if not (got == expect) and parse(o['cfg'])[2] == parse(o['cfg_i'])[2]:
            fails.append({'key': 'transpose-structure', 'what': 'result is not shaped inner-of-outer',
                          'want': repr(expect)[:200], 'got': repr(got)[:200]})
        out_leaves = optree.tree_leaves(out, **kwt)
        if len(out_leaves) != m * n or any(out_leaves[j * m + i] is not leaves[i * n + j]
                                           for i in range(m) for j in range(n)):
            fails.append({'key': 'transpose-values', 'what': 'value at (inner j, outer i) is not the input value at (outer i, inner j)'})
        back = outcome(lambda: optree.tree_transpose(inner, outer, out))
        if back[0] != 'ok' or render(u.enc_obj(back[1])) != render(u.enc_obj(tree)):
            if got == expect:
                fails.append({'key': 'transpose-involution', 'what': 'transposing back does not return the original tree',
                              'back': str(back[1])[:200]})
        # tree_transpose_map = transpose(tree_map)
        from universe import Lf
        if m > 0:
            def f(x):
                return inner.unflatten([Lf(-1 - k) for k in range(n)])
            mapped = optree.tree_map(f, outer_t, **kw)
            want = outcome(lambda: optree.tree_transpose(outer, inner, mapped))
            calls = []

            def f2(x):
                calls.append(x)
                return inner.unflatten([(_MARK, len(calls), k) for k in range(n)])
            gotm = outcome(lambda: optree.tree_transpose_map(f2, outer_t, inner_treespec=inner, **kw))
            if want[0] == 'ok':
                if gotm[0] != 'ok':
                    fails.append({'key': 'transpose-map-raises', 'what': f'tree_transpose_map raised {gotm[1]}: {gotm[2]}'})
                else:
                    s1 = optree.tree_structure(want[1], **kwt)
                    s2 = optree.tree_structure(gotm[1], **{**kwt, 'is_leaf': lambda x: type(x) is tuple and len(x) == 3 and x[0] is _MARK})
                    if not (s1 == s2) and not ns_conflict and parse(o['cfg'])[2] == parse(o['cfg_i'])[2]:
                        fails.append({'key': 'transpose-map-structure', 'what': 'tree_transpose_map differs in structure from transposing tree_map',
                                      'want': repr(s1)[:200], 'got': repr(s2)[:200]})
                    if len(calls) != m:
                        fails.append({'key': 'transpose-map-calls', 'what': 'f not called once per outer leaf'})
            # the inner structure inferred from the first result (all three variants) = the given one
            if want[0] == 'ok' and parse(o['cfg'])[2] == parse(o['cfg_i'])[2]:
                for name in ('tree_transpose_map', 'tree_transpose_map_with_path', 'tree_transpose_map_with_accessor'):
                    cnt = []

                    def f3(*xs):
                        cnt.append(xs)
                        return inner.unflatten([Lf(-1 - k) for k in range(n)])
                    goti = outcome(lambda: getattr(optree, name)(f3, outer_t, **kw))
                    if goti[0] != 'ok':
                        fails.append({'key': 'transpose-map-inferred-raises', 'what': f'{name} without inner_treespec raised {goti[1]}: {goti[2]}'})
                        continue
                    s3 = optree.tree_structure(goti[1], **kwt)
                    s1 = optree.tree_structure(want[1], **kwt)
                    if not (s1 == s3):
                        fails.append({'key': 'transpose-map-inferred-structure',
                                      'what': f'{name} with the inner structure taken from the first result is not shaped inner-of-outer',
                                      'want': repr(s1)[:200], 'got': repr(s3)[:200]})
                    if len(cnt) != m:
                        fails.append({'key': 'transpose-map-calls', 'what': f'{name}: f not called once per outer leaf'})
            # the same with an is_leaf predicate under which the results contain opaque container leaves ("points")
            if want[0] == 'ok' and parse(o['cfg'])[2] == parse(o['cfg_i'])[2]:
                def is_point(x):
                    # opaque container leaves that cannot occur in the generated trees (integer leaves do)
                    return type(x) is tuple and len(x) == 3 and x[0] is _MARK
                kwl = {**kw, 'is_leaf': is_point}
                kwtl = {**kwt, 'is_leaf': is_point}

                def fpt(*xs):
                    return inner.unflatten([(_MARK, k, 7 * k) for k in range(n)])
                mapped_l = optree.tree_map(fpt, outer_t, **kwl)
                want_l = outcome(lambda: optree.tree_transpose(outer, inner, mapped_l, is_leaf=is_point))
                if want_l[0] == 'ok':
                    wl, ws = optree.tree_flatten(want_l[1], **kwtl)
                    if len(wl) != m * n or not all(is_point(x) for x in wl):
                        fails.append({'key': 'transpose-predicate-leaves', 'what': 'tree_transpose with is_leaf lost or split the opaque leaves'})
                    for name in ('tree_transpose_map', 'tree_transpose_map_with_path', 'tree_transpose_map_with_accessor'):
                        gl = outcome(lambda: getattr(optree, name)(fpt, outer_t, **kwl))
                        if gl[0] != 'ok':
                            fails.append({'key': 'transpose-map-predicate-raises',
                                          'what': f'{name}(f, t, is_leaf=L) raised {gl[1]}: {gl[2]} although transposing tree_map(f, t, is_leaf=L) succeeds'})
                            continue
                        g_l, g_s = optree.tree_flatten(gl[1], **kwtl)
                        if g_l != wl or not (g_s == ws):
                            fails.append({'key': 'transpose-map-predicate',
                                          'what': f'{name}(f, t, is_leaf=L) differs from transposing tree_map(f, t, is_leaf=L) (results of f are leaves under L)',
                                          'want': repr(ws)[:200], 'got': repr(g_s)[:200]})
    return fails
