"""helpers shared by the per-property modules"""

from __future__ import annotations

import contextlib

from sexp import A, Atom, parse, render
from gen import tree_stats


def L(*xs):
    return render(list(xs))


def op(name, *args):
    return render([A(name), *args])


def has_internal_node(tree) -> bool:
    return not isinstance(tree, Atom) and tree[0] != 'L'


def dist_add(d, key, n=1):
    d[key] = d.get(key, 0) + n


def tree_distribution(cases, tree_key='tree', cfg_key='cfg'):
    kinds: dict = {}
    sizes: dict = {}
    cfgs: dict = {}
    for c in cases:
        o = c.get('o') or {}
        t = o.get(tree_key)
        if t is None:
            continue
        st = tree_stats(parse(t))
        for k, n in st['kinds'].items():
            dist_add(kinds, k, n)
        b = st['size']
        bucket = '1' if b == 1 else '2-5' if b <= 5 else '6-15' if b <= 15 else '16-40' if b <= 40 else '41+'
        dist_add(sizes, bucket)
        cfg = o.get(cfg_key)
        if cfg:
            s = parse(cfg)
            dist_add(cfgs, f'nil={s[1]} ns={s[2]!r} pred={s[3]} ordered={list(s[4])}')
    return {'node_kinds': kinds, 'tree_sizes': sizes, 'cfg_cells': len(cfgs),
            'cfg_top': dict(sorted(cfgs.items(), key=lambda kv: -kv[1])[:8])}


# ---- implementation-side helpers (only used inside the impl sub-process) ----------------------

def impl_cfg(impl, cfg_text):
    return impl.cfg(parse(cfg_text))


@contextlib.contextmanager
def in_cfg(impl, cfg_text):
    kw, ordered = impl_cfg(impl, cfg_text)
    with impl.ordered(ordered):
        yield kw
