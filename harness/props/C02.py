"""C02  Leaf order and node/leaf classification follow the documented rules."""

from __future__ import annotations

import random

from sexp import A, Atom, parse, render
from props.common import has_internal_node, in_cfg, op, tree_distribution
from gen import STD_REGISTRY

RULE = ('random pytrees incl. sub-class instances of built-ins as leaves, mixed / incomparable key sets; every '
        'key list of the tree is also sent through the `sort` op; distinct by request text; non-trivial = has an '
        'internal node')


def keysets(t, out):
    if isinstance(t, Atom):
        return
    tag = t[0]
    if tag in ('D', 'O'):
        out.append([k for k, _ in t[1:]])
        for _, v in t[1:]:
            keysets(v, out)
    elif tag == 'DD':
        out.append([k for k, _ in t[2:]])
        for _, v in t[2:]:
            keysets(v, out)
    elif tag in ('T', 'l'):
        for c in t[1:]:
            keysets(c, out)
    elif tag in ('Q', 'NT', 'SS'):
        for c in t[2:]:
            keysets(c, out)
    elif tag == 'U':
        for c in t[4:]:
            keysets(c, out)


def _generate_model_cases(gen, tier):
    n = 350 if tier == 'quick' else 10000
    cases = []
    for i in range(n):
        depth = gen.rng.choice([2, 3, 3, 4])
        weights = [2, 2, 5, 2, 3, 1, 1, 1, 2, 1, 2]
        t = gen.tree(depth=depth, width=gen.rng.choice([3, 4, 5]), weights=weights)
        cfg = gen.cfg()
        lines = [op('flatten', cfg, t), op('is_leaf', cfg, t), op('replace_nones', cfg, t)]
        ks = []
        keysets(t, ks)
        for k in ks[:4]:
            if len(k) >= 2:
                lines.append(op('sort', *k))
        cases.append({'lines': lines, 'o': {'cfg': render(cfg), 'tree': render(t), 'perm_seed': gen.rng.randrange(10**6)}})
    # a registered class at the *root* (registered globally, in the requested namespace only, in another namespace, not at
    # all) holding None: every wrapper has to classify it the way flatten does (tree_replace_nones, tree_is_leaf, leaves)
    for ns in ('', 'a', 'b', 'zz'):
        for c in (0, 1, 2, 3, 4, 5):
            for nil in (False, True):
                t = [A('U'), c, gen.md(), A('ok'), gen.leaf(0), A('N'), [A('T'), A('N'), gen.leaf(0)]]
                cfg = gen.cfg(ns=ns, nil=nil, pred=0)
                cases.append({'lines': [op('flatten', cfg, t), op('is_leaf', cfg, t), op('replace_nones', cfg, t)],
                              'o': {'cfg': render(cfg), 'tree': render(t), 'perm_seed': gen.rng.randrange(10**6)}})
    # exhaustive permutations of small key sets through the sort op
    pools = [
        [[A('i'), 1], [A('i'), 2], [A('s'), 'a'], [A('s'), 'b']],
        [[A('i'), 3], [A('i'), 1], [A('o'), 'vk.KU', A('0'), 0, 900009001], [A('o'), 'vk.KU', A('0'), 0, 900009002]],
        [[A('o'), 'vk.KO', A('1'), 2, 900009003], [A('o'), 'vk.KO', A('1'), 1, 900009004], [A('o'), 'vk.KO', A('1'), 2, 900009005], [A('i'), 0]],
        [[A('t'), 0, 1], [A('t'), 0], [A('t')], [A('s'), '']],
        [[A('o'), 'vk.KU', A('0'), 0, 900009006], [A('o'), 'vk.KV', A('0'), 0, 900009007], [A('s'), 'x'], [A('i'), 5]],
    ]
    import itertools
    for pool in pools:
        perms = list(itertools.permutations(pool))
        if tier == 'quick':
            perms = perms[::3]
        for p in perms:
            d = [A('D'), *[[k, [A('L'), 0, 7000 + j]] for j, k in enumerate(p)]]
            cfg = gen.cfg(pred=0)
            cases.append({'lines': [op('sort', *p), op('flatten', cfg, d)],
                          'o': {'cfg': render(cfg), 'tree': render(d), 'perm_seed': 1}})
    # failing sorts on longer key lists: a comparable run, then a key that belongs earlier, then
    # incomparable keys (list.sort() has already moved elements when it gives up)
    n2 = 120 if tier == 'quick' else 4000
    for _ in range(n2):
        m = gen.rng.randrange(3, 8)
        style = gen.rng.choice(['int', 'str', 'tup', 'mixed', 'ord'])
        ks = gen.keyset(m, style)
        extra = []
        for _ in range(gen.rng.choice([1, 2, 2, 3])):
            extra.append(gen.key_obj(gen.rng.choice(['vk.KU', 'vk.KV']), False))
        if gen.rng.random() < 0.3:
            extra.append([A('t'), 1, 5]) if style != 'tup' else None
        extra = [e for e in extra if e is not None]
        ks = ks + extra
        if gen.rng.random() < 0.6:
            # keep a sorted-ish prefix followed by a small key, then the incomparable ones
            pos = gen.rng.randrange(0, len(ks) + 1)
            tail = ks[len(ks) - len(extra):]
            head = ks[:len(ks) - len(extra)]
            gen.rng.shuffle(head)
            ks = head[:pos] + tail[:1] + head[pos:] + tail[1:]
        else:
            gen.rng.shuffle(ks)
        kind = gen.rng.choice(['D', 'DD'])
        d = [A('D'), *[[k, gen.leaf(0)] for k in ks]] if kind == 'D' else [A('DD'), 0, *[[k, gen.leaf(0)] for k in ks]]
        cfg = gen.cfg(pred=0, ordered=[])
        cases.append({'lines': [op('sort', *ks), op('flatten', cfg, d), op('iter', cfg, d), op('flatten_with_path', cfg, d)],
                      'o': {'cfg': render(cfg), 'tree': render(d), 'perm_seed': 1}})
    return cases


def generate(gen, tier):
    cases = _generate_model_cases(gen, tier)
    # order-free stream: key sets outside the model's key universe (props/exotic.py); oracle only, no model lines
    n = 200 if tier == 'quick' else 5000
    for _ in range(n):
        cases.append({'lines': [], 'o': {'exotic': gen.rng.randrange(10**9)}})
    # classification after a history of registrations / unregistrations (several types per namespace)
    for _ in range(40 if tier == 'quick' else 1500):
        cases.append({'lines': [], 'o': {'exotic': 0, 'reghist': gen.rng.randrange(10**9)}})
    return cases


def nontrivial(case):
    if 'exotic' in case['o']:
        return True
    return has_internal_node(parse(case['o']['tree']))


def distribution(cases):
    n_exotic = sum(1 for c in cases if 'exotic' in c['o'])
    cases = [c for c in cases if 'exotic' not in c['o']]
    d0 = _distribution(cases)
    d0['exotic_key_cases'] = n_exotic
    return d0


def _distribution(cases):
    return tree_distribution(cases)


# ---- reference semantics, written from the README rules, independent of optree ----------------

def ref_total_order(keys):
    keys = list(keys)
    try:
        return sorted(keys)
    except TypeError:
        try:
            return sorted(keys, key=lambda k: (f'{k.__class__.__module__}.{k.__class__.__qualname__}', k))
        except TypeError:
            return keys


def registered(cls_kind, idx, ns):
    for rns, ck, c, _, _ in STD_REGISTRY:
        if ck == cls_kind and c == idx and (rns == '' or rns == ns):
            return True
    return False


def ref_leaves(x, pred, nil, ns, insertion):
    from collections import OrderedDict, defaultdict, deque
    from universe import NT_CLASSES, SS_CLASSES, USER_CLASSES, UBase
    if pred is not None and pred(x):
        return [x]
    if x is None:
        return [x] if nil else []
    t = type(x)

    def cat(children):
        out = []
        for c in children:
            out.extend(ref_leaves(c, pred, nil, ns, insertion))
        return out

    if t in (tuple, list, deque):
        return cat(x)
    if t is OrderedDict:
        return cat(x.values())
    if t in (dict, defaultdict):
        keys = list(x) if insertion else ref_total_order(x)
        return cat(x[k] for k in keys)
    if t in NT_CLASSES or t in SS_CLASSES:
        return cat(tuple(x))
    if t in USER_CLASSES:
        if registered(0, t.cls_id, ns):
            return cat(x.children)
        return [x]
    return [x]


def permute_dicts(s, rng):
    """same tree with the insertion order of every dict / defaultdict shuffled"""
    if isinstance(s, Atom):
        return s
    tag = s[0]
    if tag == 'D':
        items = [[k, permute_dicts(v, rng)] for k, v in s[1:]]
        rng.shuffle(items)
        return [tag, *items]
    if tag == 'DD':
        items = [[k, permute_dicts(v, rng)] for k, v in s[2:]]
        rng.shuffle(items)
        return [tag, s[1], *items]
    if tag == 'O':
        return [tag, *[[k, permute_dicts(v, rng)] for k, v in s[1:]]]
    if tag in ('T', 'l'):
        return [tag, *[permute_dicts(c, rng) for c in s[1:]]]
    if tag in ('Q', 'NT', 'SS'):
        return [tag, s[1], *[permute_dicts(c, rng) for c in s[2:]]]
    if tag == 'U':
        return [tag, s[1], s[2], s[3], *[permute_dicts(c, rng) for c in s[4:]]]
    return s


def strictly_sortable(s, u):
    """every dict/defaultdict key set of the tree has an order independent of insertion order"""
    ks = []
    keysets_nonod(s, ks)
    for keys in ks:
        pk = [u.key(k) for k in keys]
        a = ref_total_order(pk)
        b = ref_total_order(list(reversed(pk)))
        if [id(x) for x in a] != [id(x) for x in b]:
            return False
    return True


def keysets_nonod(t, out):
    if isinstance(t, Atom):
        return
    tag = t[0]
    if tag == 'D':
        out.append([k for k, _ in t[1:]])
    if tag == 'DD':
        out.append([k for k, _ in t[2:]])
    start = {'D': 1, 'O': 1, 'DD': 2}.get(tag)
    if start is not None:
        for _, v in t[start:]:
            keysets_nonod(v, out)
    elif tag in ('T', 'l'):
        for c in t[1:]:
            keysets_nonod(c, out)
    elif tag in ('Q', 'NT', 'SS'):
        for c in t[2:]:
            keysets_nonod(c, out)
    elif tag == 'U':
        for c in t[4:]:
            keysets_nonod(c, out)


def _reghist(seed):
    """node / leaf classification is a function of what is registered *now*: after every step of a random history of
    registrations and unregistrations over three namespaces, an instance is an internal node exactly if its exact type is
    registered in the queried namespace or globally (documented lookup rule), for both none_is_leaf settings"""
    import optree
    from run_impl import GLOBAL_NS
    rng = random.Random(seed)
    fails = []
    classes = [type(f'H{i}_{seed}', (), {'__init__': lambda self, *c: setattr(self, 'children', list(c))}) for i in range(4)]
    spaces = ['', 'h1', 'h2']
    registered = set()

    def reg(cls, ns):
        optree.register_pytree_node(cls, lambda x: (x.children, None), lambda _, c, cls=cls: cls(*c),
                                    namespace=ns if ns else GLOBAL_NS)
        registered.add((cls, ns))

    def unreg(cls, ns):
        optree.unregister_pytree_node(cls, namespace=ns if ns else GLOBAL_NS)
        registered.discard((cls, ns))

    def observe(step):
        for cls in classes:
            inst = cls('x', 'y')
            for q in spaces + ['h-unknown']:
                want_node = (cls, q) in registered or (cls, '') in registered
                for nil in (False, True):
                    is_leaf = optree.tree_is_leaf(inst, none_is_leaf=nil, namespace=q)
                    leaves = optree.tree_leaves([inst, None], none_is_leaf=nil, namespace=q)
                    want_leaves = (['x', 'y'] if want_node else [inst]) + ([None] if nil else [])
                    if bool(is_leaf) == want_node or len(leaves) != len(want_leaves) or any(a is not b for a, b in zip(leaves, want_leaves)):
                        fails.append({'key': 'classification-after-history',
                                      'what': f'after {step}: an instance of a class that is {"" if want_node else "not "}registered in namespace {q!r} or globally '
                                              f'is classified as a {"leaf" if is_leaf else "node"} (none_is_leaf={nil}); leaves {leaves!r}',
                                      'registered': sorted((c.__name__, n) for c, n in registered)})
                        return False
        return True
    history = []
    try:
        for step in range(rng.choice([6, 8, 10, 12])):
            cls, ns = rng.choice(classes), rng.choice(spaces)
            if (cls, ns) in registered and rng.random() < 0.7:
                unreg(cls, ns)
                history.append(f'unregister {cls.__name__} in {ns!r}')
            elif (cls, ns) not in registered:
                reg(cls, ns)
                history.append(f'register {cls.__name__} in {ns!r}')
            else:
                continue
            if not observe('; '.join(history)):
                break
    finally:
        for cls, ns in list(registered):
            try:
                unreg(cls, ns)
            except Exception:  # noqa: BLE001
                pass
    return fails


def same(a, b):
    return len(a) == len(b) and all(x is y for x, y in zip(a, b))


def oracle(impl, o):
    if 'reghist' in o:
        return _reghist(o['reghist'])
    if 'exotic' in o:
        import optree as _optree
        from props import exotic
        return exotic.check_C02(_optree, o['exotic'])
    import optree
    u = impl.u
    fails = []
    s = parse(o['tree'])
    tree = u.obj(s)
    cfg = parse(o['cfg'])
    with in_cfg(impl, o['cfg']) as kw:
        pred, nil, ns = kw['is_leaf'], kw['none_is_leaf'], kw['namespace']
        insertion = bool(optree._C.is_dict_insertion_ordered(ns))
        try:
            leaves, spec = optree.tree_flatten(tree, **kw)
        except Exception:
            return []
        try:
            want = ref_leaves(tree, pred, nil, ns, insertion)
        except Exception as e:
            return [{'key': 'ref-raises', 'what': f'reference semantics raised {type(e).__name__}'}]
        if not same(leaves, want):
            # classify: is it only the order inside a dict whose keys cannot be sorted?
            key = 'leaf-order'
            if sorted(map(id, leaves)) == sorted(map(id, want)):
                ks = []
                keysets_nonod(s, ks)
                unsortable = False
                for keys in ks:
                    pk = [u.key(k) for k in keys]
                    try:
                        sorted(pk)
                    except TypeError:
                        try:
                            sorted(pk, key=lambda k: (f'{k.__class__.__module__}.{k.__class__.__qualname__}', k))
                        except TypeError:
                            unsortable = True
                if unsortable:
                    key = 'unsortable-keys-not-insertion-order'
            fails.append({'key': key, 'what': 'tree_leaves differs from the documented order',
                          'expected': [render(u.enc_obj(x)) for x in want],
                          'got': [render(u.enc_obj(x)) for x in leaves]})
        # classification of the root
        is_leaf = optree.tree_is_leaf(tree, **kw)
        want_leaf = len(want) == 1 and want[0] is tree
        if bool(is_leaf) != want_leaf:
            fails.append({'key': 'classification', 'what': f'tree_is_leaf={is_leaf} but documented rules say {want_leaf}'})
        # dict insertion order is irrelevant (sorted mode, strictly sortable keys)
        if not insertion and strictly_sortable(s, u):
            rng = random.Random(o['perm_seed'])
            s2 = permute_dicts(s, rng)
            t2 = u.obj(s2)
            leaves2, spec2 = optree.tree_flatten(t2, **kw)
            if [render(u.enc_obj(x)) for x in leaves] != [render(u.enc_obj(x)) for x in map(_norm(u, rng), leaves2)] and \
                    not _same_upto_dict_order(u, leaves, leaves2):
                fails.append({'key': 'dict-order-leaves', 'what': 'equal dicts with different insertion order flatten to different leaves',
                              'other': render(s2)})
            if not (spec == spec2) or hash(spec) != hash(spec2):
                fails.append({'key': 'dict-order-spec', 'what': 'equal dicts with different insertion order give unequal treespecs / hashes',
                              'other': render(s2)})
        # tree_replace_nones: the None objects among the none_is_leaf=True leaves (same namespace, no predicate) replaced
        try:
            want_t = ref_leaves(tree, None, True, ns, insertion)
        except Exception:
            want_t = None
        if want_t is not None:
            sentinel = object()
            rn = _outcome(lambda: optree.tree_replace_nones(sentinel, tree, namespace=ns))
            if rn[0] != 'ok':
                fails.append({'key': 'replace-nones-raises', 'what': f'tree_replace_nones raised {rn[1]}'})
            else:
                got = optree.tree_leaves(rn[1], none_is_leaf=True, namespace=ns)
                if not same(got, [sentinel if x is None else x for x in want_t]):
                    fails.append({'key': 'replace-nones', 'what': 'tree_replace_nones does not replace exactly the None leaves the documented '
                                  'rules give for this namespace', 'expected_leaves': len(want_t), 'got_leaves': len(got)})
        # none filter
        if pred is None or not _pred_true_on_none(pred):
            kw_t = dict(kw, none_is_leaf=True)
            kw_f = dict(kw, none_is_leaf=False)
            lt = optree.tree_leaves(tree, **kw_t)
            lf = optree.tree_leaves(tree, **kw_f)
            if not same(lf, [x for x in lt if x is not None]):
                fails.append({'key': 'none-filter', 'what': 'none_is_leaf=False leaves are not the none_is_leaf=True leaves minus None'})
        # predicate refinement
        if pred is not None:
            kw0 = dict(kw, is_leaf=None)
            l0 = optree.tree_leaves(tree, **kw0)
            l1 = []
            for x in leaves:
                l1.extend(optree.tree_leaves(x, **kw0))
            if not same(l0, l1):
                fails.append({'key': 'pred-refine', 'what': 'flattening the leaves obtained under a predicate differs from flattening without it'})
    return fails


def _outcome(f):
    try:
        return ('ok', f())
    except Exception as e:  # noqa: BLE001
        return ('err', type(e).__name__)


def _pred_true_on_none(pred):
    try:
        return bool(pred(None))
    except Exception:
        return True


def _norm(u, rng):
    return lambda x: x


def _canon(u, x):
    """structure with dict items sorted by rendered key (insertion order forgotten)"""
    s = u.enc_obj(x)

    def go(s):
        if isinstance(s, Atom):
            return s
        tag = s[0]
        if tag == 'D':
            return [tag, *sorted(([k, go(v)] for k, v in s[1:]), key=lambda kv: render(kv[0]))]
        if tag == 'DD':
            return [tag, s[1], *sorted(([k, go(v)] for k, v in s[2:]), key=lambda kv: render(kv[0]))]
        if tag == 'O':
            return [tag, *[[k, go(v)] for k, v in s[1:]]]
        if tag in ('T', 'l'):
            return [tag, *map(go, s[1:])]
        if tag in ('Q', 'NT', 'SS'):
            return [tag, s[1], *map(go, s[2:])]
        if tag == 'U':
            return [tag, s[1], s[2], s[3], *map(go, s[4:])]
        return s
    return render(go(s))


def _same_upto_dict_order(u, a, b):
    return len(a) == len(b) and all(_canon(u, x) == _canon(u, y) for x, y in zip(a, b))
