"""C09  Broadcasting replicates prefix leaves onto the matching positions."""

from __future__ import annotations

from sexp import A, Atom, parse, render
from props.common import in_cfg, op
from gen import near_miss, relabel_leaves, substitute_leaves, vary_dicts

RULE = ('pairs and triples of pytrees related by leaf substitution (on one side, on both sides), dict-kind / key-order '
        'variants, conflicts by one local edit, unrelated; custom nodes with explicit entries included; distinct by '
        'request text; non-trivial = first tree has an internal node')


def generate(gen, tier):
    rng = gen.rng
    n = 260 if tier == 'quick' else 9000
    cases = []
    for i in range(n):
        base = gen.tree(depth=rng.choice([2, 3, 3]), width=rng.choice([3, 4]),
                        weights=[3, 3, 4, 3, 2, 2, 2, 1, 4, 1, 3])
        cls = rng.choices(['prefix', 'both', 'variant', 'conflict', 'unrelated', 'same'],
                          weights=[25, 30, 20, 15, 5, 5])[0]
        cfg = gen.cfg(pred=rng.choice([0, 0, 0, 2, 6]))
        a = base
        if cls == 'prefix':
            b = substitute_leaves(gen, base, 0.5, 2)
        elif cls == 'both':
            a = substitute_leaves(gen, base, 0.4, 2)
            b = substitute_leaves(gen, relabel_leaves(gen, base), 0.4, 2)
        elif cls == 'variant':
            a = substitute_leaves(gen, base, 0.3, 1)
            b = vary_dicts(gen, substitute_leaves(gen, relabel_leaves(gen, base), 0.3, 2))
        elif cls == 'conflict':
            b, _ = near_miss(gen, substitute_leaves(gen, relabel_leaves(gen, base), 0.2, 1))
        elif cls == 'unrelated':
            b = gen.tree(depth=2, width=3)
        else:
            b = relabel_leaves(gen, base)
        c = None
        cr = rng.random()
        if cr < 0.3:
            c = substitute_leaves(gen, relabel_leaves(gen, base), 0.3, 2)
        elif cr < 0.6:
            # structure that the other operands lack but that keeps every leaf count unchanged: one-child
            # containers, a None sibling, an empty container next to the leaf (n-ary broadcast must still re-broadcast)
            c = thin_substitute(gen, relabel_leaves(gen, base), 0.5, nil=(cfg[1] == '1'))
        sa, sb = [A('structure'), cfg, a], [A('structure'), cfg, b]
        lines = [op('spec', [A('bcast'), sa, sb]), op('spec', [A('bcast'), sb, sa]),
                 op('paths', [A('bcast'), sa, sb]), op('is_enc', [A('bcast'), sa, sb])]
        # the Python layer on top of the merge walk: tree_broadcast_prefix / broadcast_prefix, tree_broadcast_common,
        # tree_broadcast_map* over two and three operands (operand order matters for the two-pass n-ary loop)
        variant = rng.choice(['plain', 'plain', 'path', 'acc'])
        fid = rng.choice([1, 2, 0])
        lines += [op('bprefix', cfg, a, b), op('bcommon', cfg, a, b), op('bmap', A(variant), cfg, fid, a, b)]
        if c is not None:
            order = rng.choice([[a, b, c], [a, c, b], [c, a, b], [b, a, c]])
            lines += [op('bmap', A('plain'), cfg, 1, a, b, c), op('bmap', A(variant), cfg, fid, *order)]
        cases.append({'lines': lines, 'o': {'cfg': render(cfg), 'a': render(a), 'b': render(b),
                                            'c': render(c) if c is not None else None, 'class': cls}})
    return cases


def thin_substitute(gen, t, p, nil):
    """a suffix of `t` with as many leaves as `t`: some leaves wrapped in one-child containers, given a `None`
    sibling (when None is not a leaf) or an empty-container sibling"""
    from gen import map_children
    rng = gen.rng
    if isinstance(t, Atom):
        return t
    if t[0] == 'L':
        x = t
        while rng.random() < p:
            k = rng.choice(['T1', 'l1', 'D1', 'Tn', 'Te', 'le', 'Q1'])
            if k == 'T1':
                x = [A('T'), x]
            elif k == 'l1':
                x = [A('l'), x]
            elif k == 'D1':
                x = [A(rng.choice(['D', 'O'])), [[A('s'), rng.choice(['k', 'a'])], x]]
            elif k == 'Q1':
                x = [A('Q'), A('N'), x]
            elif k == 'Tn':
                x = [A('T'), x, A('N')] if (not nil and rng.random() < 0.5) else [A('T'), [A('T')], x]
            elif k == 'Te':
                x = [A('T'), x, [A('l')]]
            else:
                x = [A('l'), [A('T')], x]
            p = p * 0.6
        return x
    return map_children(t, lambda c: thin_substitute(gen, c, p, nil))


def nontrivial(case):
    t = parse(case['o']['a'])
    return not isinstance(t, Atom) and t[0] != 'L'


def distribution(cases):
    d = {}
    for c in cases:
        k = c['o']['class']
        d[k] = d.get(k, 0) + 1
    return {'pair_classes': d, 'triples': sum(1 for c in cases if c['o']['c'])}


def outcome(f):
    try:
        return ('ok', f())
    except Exception as e:  # noqa: BLE001
        return ('err', type(e).__name__, str(e)[:150])


def hp(p):
    # user-object keys are identified by ('o', uid): a bare uid could collide with an int key of the same dict
    return tuple(('o', e.uid) if (not isinstance(e, (int, str, tuple)) and hasattr(e, 'uid')) else e for e in p)


def state_of(u, spec):
    return render(u.enc_spec(spec))


class Conflict(Exception):
    pass


def ref_lub_paths(x, y, pred, nil, ns, insertion, prefix=False):
    """leaf paths of the least common suffix of two trees, from the documented rules (independent of
    optree's engine): a leaf gives way to the other tree's subtree; nodes must agree in type (the three
    dict kinds are interchangeable), arity / key set / namedtuple class / custom metadata; children are
    paired by position or key; the first tree's key order and entries are kept"""
    from collections import OrderedDict, defaultdict, deque
    from universe import NT_CLASSES, SS_CLASSES, USER_CLASSES
    from props.C02 import ref_total_order, registered
    from gen import STD_REGISTRY

    def is_leaf(v):
        if pred is not None and pred(v):
            return True
        if v is None:
            return nil
        t = type(v)
        if t in (tuple, list, deque, dict, OrderedDict, defaultdict) or t in NT_CLASSES or t in SS_CLASSES:
            return False
        if t in USER_CLASSES:
            return not registered(0, t.cls_id, ns)
        return True

    def reg_for(cls_id):
        best = None
        for rns, ck, c, ek, mode in STD_REGISTRY:
            if ck == 0 and c == cls_id and rns in ('', ns):
                if rns == ns and ns != '':
                    return (rns, mode)
                best = (rns, mode)
        return best

    def entries_of(v):
        t = type(v)
        if t in (dict, defaultdict):
            return list(v) if insertion else ref_total_order(v)
        if t is OrderedDict:
            return list(v)
        if t in USER_CLASSES:
            mode = reg_for(t.cls_id)[1]
            n = len(v.children)
            if mode == 'named':
                return [f'c{i}' for i in range(n)]
            if mode == 'shifted':
                return [10 + i for i in range(n)]
            return list(range(n))
        return list(range(len(v)))

    def child(v, e, i):
        t = type(v)
        if t in (dict, defaultdict, OrderedDict):
            return v[e]
        if t in USER_CLASSES:
            return v.children[i]
        return v[i]

    def single(v, path, out):
        if is_leaf(v):
            out.append(path)
            return
        if v is None:
            return
        for i, e in enumerate(entries_of(v)):
            single(child(v, e, i), path + (e,), out)

    def merge(a, b, path, out):
        if is_leaf(a):
            single(b, path, out)
            return
        if is_leaf(b):
            if prefix:
                raise Conflict       # `a` has a node where `b` has a leaf: not a prefix
            single(a, path, out)
            return
        if a is None or b is None:
            if a is None and b is None:
                return
            raise Conflict
        ta, tb = type(a), type(b)
        dicts = (dict, OrderedDict, defaultdict)
        if ta in dicts:
            if tb not in dicts or set(a) != set(b):
                raise Conflict
        elif ta is deque and tb is deque:
            if len(a) != len(b):
                raise Conflict
        elif ta is not tb:
            raise Conflict
        elif ta in USER_CLASSES:
            if len(a.children) != len(b.children) or a.md != b.md:
                raise Conflict
        elif len(a) != len(b):
            raise Conflict
        ea = entries_of(a)
        for i, e in enumerate(ea):
            if ta in dicts:
                merge(a[e], b[e], path + (e,), out)
            else:
                merge(child(a, e, i), child(b, e, i), path + (e,), out)

    out = []
    merge(x, y, (), out)
    return out


def oracle(impl, o):
    import optree
    u = impl.u
    fails = []
    a = u.obj(parse(o['a']))
    b = u.obj(parse(o['b']))
    ea, eb = render(u.enc_obj(a)), render(u.enc_obj(b))
    with in_cfg(impl, o['cfg']) as kw:
        try:
            la, sa = optree.tree_flatten(a, **kw)
            lb, sb = optree.tree_flatten(b, **kw)
        except Exception:
            return []
        before = (state_of(u, sa), state_of(u, sb))
        r = outcome(lambda: sa.broadcast_to_common_suffix(sb))
        r2 = outcome(lambda: sb.broadcast_to_common_suffix(sa))
        after = (state_of(u, sa), state_of(u, sb))
        if before != after:
            fails.append({'key': 'operand-treespec-mutated', 'what': 'broadcast_to_common_suffix modified an operand treespec',
                          'before': before[1][:300], 'after': after[1][:300]})
        if render(u.enc_obj(a)) != ea or render(u.enc_obj(b)) != eb:
            fails.append({'key': 'operand-tree-mutated', 'what': 'an operand tree was modified'})
        if r[0] == 'err' and r[1] != 'ValueError':
            fails.append({'key': 'bcast-error-type-' + r[1], 'what': f'broadcast_to_common_suffix raised {r[1]}: {r[2]}'})
        if r[0] != r2[0]:
            fails.append({'key': 'bcast-asymmetric-failure', 'what': 'broadcast succeeds in one argument order and fails in the other'})
        try:
            want_paths = [hp(p) for p in ref_lub_paths(a, b, kw['is_leaf'], kw['none_is_leaf'], kw['namespace'],
                                                       bool(optree._C.is_dict_insertion_ordered(kw['namespace'])))]
            conflict = False
        except Conflict:
            want_paths, conflict = None, True
        except Exception:       # the reference does not cover this input (e.g. exotic custom node)
            want_paths, conflict = None, None
        if conflict is True and r[0] == 'ok':
            fails.append({'key': 'bcast-accepts-conflict', 'what': 'the trees conflict at some node but broadcast_to_common_suffix succeeded',
                          'got': repr(r[1])[:200]})
        if conflict is False and r[0] != 'ok':
            fails.append({'key': 'bcast-rejects-compatible', 'what': f'the trees have a common suffix but broadcast_to_common_suffix raised {r[1]}: {r[2]}'})
        if conflict is False and r[0] == 'ok' and [hp(p) for p in r[1].paths()] != want_paths:
            fails.append({'key': 'bcast-not-least', 'what': 'broadcast_to_common_suffix is not the least common suffix (leaf paths differ from the reference merge)',
                          'got': repr(r[1])[:300], 'want_paths': repr(want_paths)[:300]})
        if r[0] == 'ok':
            c = r[1]
            if not (sa <= c) or not (sb <= c):
                fails.append({'key': 'bcast-not-suffix', 'what': 'an operand is not a prefix of the common suffix',
                              'a': repr(sa)[:200], 'b': repr(sb)[:200], 'c': repr(c)[:200]})
            # least: every leaf of c sits at a position where a or b has a leaf
            pa, pb = {hp(p) for p in sa.paths()}, {hp(p) for p in sb.paths()}
            pc = [hp(p) for p in c.paths()]
            # paths of c extend a's paths using a's own entries (custom entries are kept)
            for p in pc:
                if not any(p[:k] in pa for k in range(len(p) + 1)):
                    fails.append({'key': 'bcast-loses-entries', 'what': f'path {p!r} of the result does not extend any path of the first operand',
                                  'a_paths': repr(sorted(pa, key=repr))[:300]})
                    break
            if sa <= sb and not (c <= sb and sb <= c):
                fails.append({'key': 'bcast-absorb', 'what': 'a is a prefix of b but broadcast(a, b) is not equivalent to b'})
            if r2[0] == 'ok':
                c2 = r2[1]
                if not (c <= c2 and c2 <= c):
                    fails.append({'key': 'bcast-symmetric', 'what': 'broadcast(a, b) and broadcast(b, a) are not equivalent'})
            rr = outcome(lambda: c.broadcast_to_common_suffix(sa))
            if rr[0] != 'ok' or rr[1] != c:
                fails.append({'key': 'bcast-idempotent', 'what': 'broadcast(broadcast(a, b), a) != broadcast(a, b)'})
            # minimality: c has no more nodes than needed -- a node of c that is not a leaf must be a node of a or b
            # (checked through the model correspondence; here: num_leaves(c) <= leaves of trees broadcast pointwise)
        # tree level: tree_broadcast_prefix / broadcast_prefix
        is_prefix = bool(sa <= sb)
        rp = outcome(lambda: optree.tree_broadcast_prefix(a, b, **kw))
        rl = outcome(lambda: optree.broadcast_prefix(a, b, **kw))
        if is_prefix:
            if rp[0] != 'ok' or rl[0] != 'ok':
                fails.append({'key': 'bprefix-raises', 'what': f'prefix is a prefix of full but tree_broadcast_prefix raised {rp[1:]}{rl[1:]}'})
            else:
                out = rp[1]
                lo, so = optree.tree_flatten(out, **kw)
                if not (so <= sb and sb <= so):
                    fails.append({'key': 'bprefix-structure', 'what': 'tree_broadcast_prefix result does not have the structure of full'})
                if len(lo) != len(rl[1]) or any(x is not y for x, y in zip(lo, rl[1])):
                    fails.append({'key': 'bprefix-leaves', 'what': 'broadcast_prefix differs from the leaves of tree_broadcast_prefix'})
                # every leaf equals the unique prefix leaf whose path is a prefix of its path
                ppaths = [hp(p) for p in sa.paths()]
                opaths = [hp(p) for p in optree.tree_paths(out, **kw)]
                for leaf, p in zip(lo, opaths):
                    owners = [i for i, q in enumerate(ppaths) if p[:len(q)] == q]
                    if len(owners) != 1 or la[owners[0]] is not leaf:
                        fails.append({'key': 'bprefix-wrong-leaf', 'what': f'leaf at {p!r} is not the prefix leaf above it'})
                        break
        else:
            if rp[0] == 'ok' or rp[1] != 'ValueError' or rl[0] == 'ok' or rl[1] != 'ValueError':
                fails.append({'key': 'bprefix-not-valueerror', 'what': f'not a prefix but tree_broadcast_prefix gave {rp[:2]} / {rl[:2]}'})
        # tree_broadcast_common and n-ary broadcast map
        rc = outcome(lambda: optree.tree_broadcast_common(a, b, **kw))
        if (rc[0] == 'ok') != (r[0] == 'ok'):
            fails.append({'key': 'bcommon-vs-treespec', 'what': 'tree_broadcast_common and broadcast_to_common_suffix disagree on failing'})
        if rc[0] == 'ok' and r[0] == 'ok':
            ta, tb = rc[1]
            s1, s2 = optree.tree_structure(ta, **kw), optree.tree_structure(tb, **kw)
            if not (s1 <= r[1] and r[1] <= s1 and s2 <= r[1] and r[1] <= s2):
                fails.append({'key': 'bcommon-structure', 'what': 'tree_broadcast_common results do not have the common-suffix structure'})
            if render(u.enc_obj(a)) != ea or render(u.enc_obj(b)) != eb:
                fails.append({'key': 'operand-tree-mutated', 'what': 'tree_broadcast_common modified an operand'})
        trees = [a, b] + ([u.obj(parse(o['c']))] if o.get('c') else [])
        calls = []
        rm = outcome(lambda: optree.tree_broadcast_map(lambda *xs: calls.append(xs) or len(calls), *trees, **kw))
        if rm[0] == 'ok':
            # equals tree_map over the trees each broadcast to the common suffix of all
            common = trees[0]
            spec_all = optree.tree_structure(trees[0], **kw)
            ok = True
            for t in trees[1:]:
                rs = outcome(lambda: spec_all.broadcast_to_common_suffix(optree.tree_structure(t, **kw)))
                if rs[0] != 'ok':
                    ok = False
                    break
                spec_all = rs[1]
            if ok:
                sm = optree.tree_structure(rm[1], **kw)
                if not (sm <= spec_all and spec_all <= sm):
                    fails.append({'key': 'bmap-structure', 'what': 'tree_broadcast_map result does not have the common suffix structure of all operands',
                                  'got': repr(sm)[:200], 'want': repr(spec_all)[:200]})
                if len(calls) != spec_all.num_leaves or any(len(c) != len(trees) for c in calls):
                    fails.append({'key': 'bmap-calls', 'what': 'tree_broadcast_map did not call f once per leaf of the common suffix'})
                else:
                    rpaths = [hp(p) for p in optree.tree_paths(rm[1], **kw)]
                    for k, t in enumerate(trees):
                        lt, st = optree.tree_flatten(t, **kw)
                        tp = [hp(p) for p in st.paths()]
                        bad = False
                        for i2, p in enumerate(rpaths):
                            owners = [j2 for j2, q in enumerate(tp) if p[:len(q)] == q]
                            if len(owners) != 1 or calls[i2][k] is not lt[owners[0]]:
                                bad = True
                                break
                        if bad:
                            fails.append({'key': 'bmap-args', 'what': f'argument {k} of the mapped calls is not operand {k} broadcast to the common suffix'})
                            break
        elif rm[1] != 'ValueError':
            fails.append({'key': 'bmap-error-type', 'what': f'tree_broadcast_map raised {rm[1]}: {rm[2]}'})
        else:
            # a ValueError is right only if the operands have no common suffix (some pair conflicts)
            spec_all, ok = optree.tree_structure(trees[0], **kw), True
            for t in trees[1:]:
                rs = outcome(lambda: spec_all.broadcast_to_common_suffix(optree.tree_structure(t, **kw)))
                if rs[0] != 'ok':
                    ok = False
                    break
                spec_all = rs[1]
            if ok and all(outcome(lambda: optree.tree_structure(t, **kw) <= spec_all)[1:] == (True,) for t in trees):
                fails.append({'key': 'bmap-rejects-compatible', 'what': f'the {len(trees)} operands have a common suffix but tree_broadcast_map raised ValueError: {rm[2]}',
                              'common': repr(spec_all)[:200]})
        # every operand order must be accepted or rejected alike
        if len(trees) == 3:
            rm2 = outcome(lambda: optree.tree_broadcast_map(lambda *xs: 0, trees[0], trees[2], trees[1], **kw))
            if (rm2[0] == 'ok') != (rm[0] == 'ok'):
                fails.append({'key': 'bmap-order-dependent', 'what': 'tree_broadcast_map succeeds for one order of the extra operands and fails for the other',
                              'first': repr(rm[1:])[:150], 'second': repr(rm2[1:])[:150]})
    return fails


def ref_is_prefix(p, f, pred, nil, ns, insertion):
    """is the structure of `p` a prefix of the structure of `f` (documented rules)?"""
    try:
        ref_lub_paths(p, f, pred, nil, ns, insertion, prefix=True)
        return True
    except Conflict:
        return False
