"""C16  No input can make the extension touch invalid memory or overflow the stack."""

from __future__ import annotations

from sexp import A, parse, render
from props.common import op

RULE = ('(a) chains of every container kind at depths limit-2 .. limit+2 (plus mixed-kind chains, self-referential containers and '
        'a flatten function that never terminates) through flatten / flatten_with_path / iter, and every operation at the limit; '
        '(b) the grid traversal (13) x container kind (7) x trigger (is_leaf on child / sibling flatten function) x position '
        '(first, middle, last) x mutation (delete before, delete after, clear, append, replace), each cell in a forked child; '
        "(b') unflatten / tree_unflatten reading the leaves from a list / deque / dict view that a custom node's unflatten function "
        'mutates (same mutations, after the first / middle / last leaf), forked; '
        '(c) treespec methods and API functions x argument-type confusions, each in a forked child; '
        "(c') treespecs restored by __setstate__ from states with one field of one node record changed (arity, counts, kind), "
        'records dropped, keyed nodes with fewer sub-trees than keys x 20 treespec methods, forked; (d) composed treespecs of '
        'depth 1001 .. 20 000 (thorough: 200 000) x every treespec method, forked; correspondence: loop machine and walker '
        'machine on the same requests; thorough: all forked cells again on an ASan+UBSan build of the engine; '
        'non-trivial = the cell mutates a container, confuses an argument or exceeds the depth limit')
TRANSLATORS = ['access']
EXTRA_TRUST = ['the machine is not modelled: actual out-of-bounds reads, use-after-free and C stack use are observed as process '
               'death (signal) of a forked child, and in the thorough tier by AddressSanitizer / UBSan on a clang build of the engine',
               'C stack capacity in the walker machine is a parameter (15 000 frames in the driver); the theorem is for every capacity '
               'above limit + 1']
SETUP_LINES = []
TEARDOWN_LINES = []
IMPL_TIMEOUT = 6000
ASAN_TIER = 'thorough'          # engine: run the cases of ASAN_KINDS again under the sanitizer build
ASAN_KINDS = ['mutate', 'unflat', 'hostile', 'confuse', 'deepspec', 'selfref', 'malformed']

TRAVERSALS = ['flatten', 'flatten_with_path', 'flatten_with_accessor', 'iter', 'leaves', 'structure', 'paths', 'accessors',
              'map', 'map_with_path', 'flatten_up_to', 'broadcast_prefix', 'from_collection']
KINDS = ['list', 'dict', 'odict', 'ddict', 'deque', 'custom', 'nested']
MUTATIONS = ['del-before', 'del-after', 'clear', 'append', 'replace']
UNFLATTEN_TRAVERSALS = ['spec.unflatten', 'tree_unflatten', 'spec.unflatten-none-is-leaf']
MALFORMED_TRAVERSALS = ['flatten', 'flatten_with_path', 'flatten_with_accessor', 'iter', 'leaves', 'structure', 'paths',
                        'accessors', 'map', 'map_with_path', 'map_with_accessor', 'flatten_one_level', 'from_collection',
                        'flatten_up_to', 'broadcast_prefix', 'transpose_map_with_path']
# (children, entries) shapes; 'gen:n' = a generator of n children; entries 'E:k' = a tuple of k entries
MALFORMED_RETURNS = ['c3-E2', 'c4-E3', 'c3-E0', 'c12-E3', 'c300-E2', 'gen:5000-E1', 'c2-E3', 'c0-E1', 'c2-E40', 'c3-Elist3',
                     'c3-Elist2', 'c3-Egen3', 'c3-Eint', 'c3-Estr', 'cint-E3', 'cNone-E0', 'cstr-E3', 'cdict-E2', 'len0', 'len1',
                     'len4', 'notuple', 'list3', 'c3-E2-nested', 'c5-E2-deep']
WALKER_NAMES = ['treespec.cpp:PathsImpl', 'treespec.cpp:AccessorsImpl', 'treespec.cpp:BroadcastToCommonSuffixImpl']
CHAIN_KINDS = ['T', 'l', 'D', 'O', 'DD', 'Q', 'NT', 'U']


def generate(gen, tier):
    rng = gen.rng
    cases = []
    lim = 1000
    # (a) depth
    for kind in CHAIN_KINDS:
        for depth in (lim - 2, lim - 1, lim, lim + 1, lim + 2):
            cases.append({'lines': [], 'o': {'kind': 'depth', 'chain': kind, 'depth': depth}})
    for i in range(6 if tier == 'quick' else 60):
        cases.append({'lines': [], 'o': {'kind': 'depth', 'chain': 'mixed', 'depth': rng.choice([lim - 1, lim, lim + 1, lim + 2]),
                                         'seed': rng.randrange(10**9)}})
    for which in ('list', 'dict', 'custom', 'deque', 'odict', 'ddict', 'tuple-in-list'):
        cases.append({'lines': [], 'o': {'kind': 'selfref', 'which': which}})
    # correspondence: loop machine
    for kind in ('list', 'deque', 'tuple'):
        for n in (1, 2, 3, 5):
            for at in range(n):
                for adv in ([A('keep')], [A('clear')], [[A('shrink'), 0]], [[A('shrink'), 1]], [[A('shrink'), max(n - 1, 0)]],
                            [[A('grow'), 1]], [[A('grow'), 4]]):
                    line = op('c16loop', A(kind), n, at, adv[0])
                    cases.append({'lines': [line], 'o': {'kind': 'loopline', 'req': line}})
    for name in WALKER_NAMES:
        for depth in (0, 1, 10, lim - 1, lim, lim + 1, lim + 2, 1500, 2 * lim + 1, 5000):
            line = op('c16walk', name, depth)
            cases.append({'lines': [line], 'o': {'kind': 'walkline', 'req': line}})
    # (b) mutation grid
    cells = [(t, k, trig, pos, m) for t in TRAVERSALS for k in KINDS for trig in ('pred', 'sibling')
             for pos in ('first', 'middle', 'last') for m in MUTATIONS]
    if tier == 'quick':
        cells = [c for i, c in enumerate(cells) if True]
    batch = 60
    for i in range(0, len(cells), batch):
        cases.append({'lines': [], 'o': {'kind': 'mutate', 'cells': [list(c) for c in cells[i:i + batch]]}})
    # (b') the traversed container is the *leaves* argument of unflatten, mutated by a custom node's unflatten function
    ucells = [(t, k, pos, m) for t in UNFLATTEN_TRAVERSALS for k in ('list', 'deque', 'dictvalues') for pos in ('first', 'middle', 'last')
              for m in MUTATIONS]
    for i in range(0, len(ucells), 45):
        cases.append({'lines': [], 'o': {'kind': 'unflat', 'cells': [list(c) for c in ucells[i:i + 45]]}})
    # (e) malformed returns of a registered flatten function x traversal
    mcells = [(t, r) for t in MALFORMED_TRAVERSALS for r in MALFORMED_RETURNS]
    for i in range(0, len(mcells), 24):
        cases.append({'lines': [], 'o': {'kind': 'malformed', 'cells': [list(c) for c in mcells[i:i + 24]]}})
    # (c) argument confusion
    # (c') treespec states that pickle would never produce, handed to __setstate__ (one field of one node record changed:
    # arity, counts, kind; records dropped), then every treespec method on the result - forked
    for ti in range(4 if tier == 'quick' else 6):
        for nil in ((False,) if tier == 'quick' else (False, True)):
            cases.append({'lines': [], 'o': {'kind': 'hostile', 'tree': ti, 'nil': nil}})
    cases.append({'lines': [], 'o': {'kind': 'confuse', 'seed': rng.randrange(10**9), 'n': 400 if tier == 'quick' else 6000}})
    # (d) deep treespecs
    depths = [1001, 1002, 2000, 5000, 20000] + ([60000, 200000] if tier != 'quick' else [])
    for d in depths:
        for ck in ['list', 'tuple', 'dict', 'odict', 'ddict', 'deque', 'namedtuple', 'custom', 'mixed']:
            if d > 20000 and ck not in ('list', 'dict', 'custom', 'mixed'):
                continue
            cases.append({'lines': [], 'o': {'kind': 'deepspec', 'depth': d, 'chain': ck}})
    return cases


def nontrivial(case):
    o = case['o']
    if o['kind'] == 'depth':
        return o['depth'] >= 1000
    return o['kind'] != 'loopline' or 'keep' not in case['lines'][0]


def distribution(cases):
    d = {}
    for c in cases:
        k = c['o']['kind']
        d[k] = d.get(k, 0) + (len(c['o']['cells']) if k in ('mutate', 'malformed', 'unflat') else 1)
    return {'case_kinds': d, 'grid': {'traversals': len(TRAVERSALS), 'kinds': len(KINDS), 'triggers': 2, 'positions': 3,
                                      'mutations': len(MUTATIONS)}}


# ------------------------------------------------------------------------------------ implementation oracle

def oracle(impl, o):
    kind = o['kind']
    if kind in ('loopline', 'walkline'):
        import mem_impl
        req = parse(o['req'])
        status, text = mem_impl.in_child(lambda: (mem_impl.loop if kind == 'loopline' else mem_impl.walk)(req))
        if status != 'ok':
            return [{'key': f'{kind}-crash', 'what': f'{o["req"]}: {status}', 'stderr': text[-600:]}]
        return []
    return {'depth': _depth, 'selfref': _selfref, 'mutate': _mutate, 'unflat': _unflat, 'hostile': _hostile, 'confuse': _confuse, 'deepspec': _deepspec,
            'malformed': _malformed}[kind](impl, o)


def _ensure_classes():
    """private custom classes of this property (namespace 'c16')"""
    import optree
    import mem_impl
    if getattr(mem_impl, '_c16_ready', False):
        return mem_impl
    from universe import Lf

    Box, Trigger, Loop = mem_impl.Box, mem_impl.Trigger, mem_impl.Loop

    def trigger_flatten(t):
        if Trigger.action is not None:
            act, Trigger.action = Trigger.action, None
            act()
        return (), None
    optree.register_pytree_node(Box, lambda b: (b.kids, None), lambda md, kids: Box(list(kids)), namespace='c16')
    optree.register_pytree_node(Trigger, trigger_flatten, lambda md, kids: Trigger(), namespace='c16')
    optree.register_pytree_node(Loop, lambda x: ((x,), None), lambda md, kids: Loop(), namespace='c16')

    class UTrigger:       # custom node (one child) whose *unflatten* function runs an action
        action = None

        def __init__(self, kid=None):
            self.kid = kid

    def utrigger_unflatten(md, kids):
        kids = list(kids)
        if UTrigger.action is not None:
            act, UTrigger.action = UTrigger.action, None
            act()
        return UTrigger(kids[0] if kids else None)
    optree.register_pytree_node(UTrigger, lambda t: ((t.kid,), None), utrigger_unflatten, namespace='c16')
    mem_impl.UTrigger = UTrigger
    mem_impl.Lf = Lf
    mem_impl._c16_ready = True
    return mem_impl


def _chain(kind, depth, rng=None):
    from collections import OrderedDict, defaultdict, deque
    import universe
    M = _ensure_classes()
    t = universe.Lf(1)
    kinds = ['T', 'l', 'D', 'O', 'DD', 'Q', 'NT', 'U']
    for i in range(depth):
        k = kind if kind != 'mixed' else rng.choice(kinds)
        if k == 'T':
            t = (t,)
        elif k == 'l':
            t = [t]
        elif k == 'D':
            t = {'k': t}
        elif k == 'O':
            t = OrderedDict(k=t)
        elif k == 'DD':
            t = defaultdict(int, k=t)
        elif k == 'Q':
            t = deque([t])
        elif k == 'NT':
            t = universe.Single(t)
        elif k == 'U':
            t = M.Box([t])
    return t


def _outcome(f):
    try:
        f()
        return 'ok'
    except RecursionError:
        return 'RecursionError'
    except Exception as e:  # noqa: BLE001
        return type(e).__name__


def _depth(impl, o):
    import random
    import optree
    M = _ensure_classes()
    fails = []
    lim = optree.MAX_RECURSION_DEPTH
    rng = random.Random(o.get('seed', 0))
    depth = o['depth'] - 1000 + lim
    kw = {'namespace': 'c16'}

    def cell():
        tree = _chain(o['chain'], depth, rng)
        res = {
            'flatten': _outcome(lambda: optree.tree_flatten(tree, **kw)),
            'flatten_with_path': _outcome(lambda: optree.tree_flatten_with_path(tree, **kw)),
            'iter': _outcome(lambda: list(optree.tree_iter(tree, **kw))),
        }
        if depth <= lim:
            leaves, spec = optree.tree_flatten(tree, **kw)
            ident = lambda x: x      # noqa: E731
            everything = {
                'tree_map': lambda: optree.tree_map(ident, tree, **kw),
                'tree_map_': lambda: optree.tree_map_(ident, tree, **kw),
                'tree_map_with_path': lambda: optree.tree_map_with_path(lambda p, x: x, tree, **kw),
                'tree_map_with_accessor': lambda: optree.tree_map_with_accessor(lambda a, x: x, tree, **kw),
                'tree_leaves': lambda: optree.tree_leaves(tree, **kw),
                'tree_structure': lambda: optree.tree_structure(tree, **kw),
                'tree_paths': lambda: optree.tree_paths(tree, **kw),
                'tree_accessors': lambda: optree.tree_accessors(tree, **kw),
                'tree_flatten_with_accessor': lambda: optree.tree_flatten_with_accessor(tree, **kw),
                'tree_unflatten': lambda: optree.tree_unflatten(spec, leaves),
                'tree_broadcast_prefix': lambda: optree.tree_broadcast_prefix(tree, tree, **kw),
                'tree_broadcast_common': lambda: optree.tree_broadcast_common(tree, tree, **kw),
                'tree_broadcast_map': lambda: optree.tree_broadcast_map(lambda a, b: a, tree, tree, **kw),
                'tree_reduce': lambda: optree.tree_reduce(lambda a, b: a, tree, **kw),
                'tree_transpose_map': lambda: optree.tree_transpose_map(lambda x: (x, x), tree, **kw),
                'tree_replace_nones': lambda: optree.tree_replace_nones(0, tree, namespace='c16'),
                'tree_is_leaf': lambda: optree.tree_is_leaf(tree, **kw),
                'flatten_up_to': lambda: spec.flatten_up_to(tree),
                'spec.paths': lambda: spec.paths(),
                'spec.accessors': lambda: spec.accessors(),
                'spec.broadcast': lambda: spec.broadcast_to_common_suffix(spec),
                'spec.is_prefix': lambda: spec.is_prefix(spec),
                'spec.eq_hash_repr': lambda: (spec == spec, hash(spec), repr(spec)),
                'spec.pickle': lambda: __import__('pickle').loads(__import__('pickle').dumps(spec)),
                'spec.children': lambda: (spec.children(), spec.one_level(), spec.entries()),
                'spec.transform': lambda: spec.transform(ident, ident),
                'spec.walk': lambda: spec.walk(leaves, lambda ty, md, ch: None, ident),
            }
            for name, f in everything.items():
                res['at-limit:' + name] = _outcome(f)
        return res
    status, text = M.in_child(cell, timeout=300)
    if status != 'ok':
        return [{'key': f'depth-crash-{o["chain"]}', 'what': f'chain of {o["chain"]} nodes, depth {depth} (limit {lim}): {status}',
                 'stderr': text[-800:]}]
    res = eval(text.split(' ', 1)[1])      # noqa: S307  (repr of a dict of strings written by our own child)
    three = [res['flatten'], res['flatten_with_path'], res['iter']]
    want = 'ok' if depth <= lim else 'RecursionError'
    if len(set(three)) != 1:
        fails.append({'key': 'depth-parity', 'what': f'{o["chain"]} chain of depth {depth} (limit {lim}): flatten / '
                      f'flatten_with_path / iter give {three}'})
    elif three[0] != want:
        fails.append({'key': 'depth-threshold', 'what': f'{o["chain"]} chain of depth {depth} (limit {lim}): the three traversals '
                      f'give {three[0]}, expected {want}'})
    for name, r in res.items():
        if name.startswith('at-limit:') and r != 'ok':
            fails.append({'key': f'at-limit-fails-{name[9:]}', 'what': f'{o["chain"]} chain of depth {depth} <= limit {lim}: '
                          f'{name[9:]} gives {r}'})
    return fails


def _selfref(impl, o):
    import optree
    from collections import OrderedDict, defaultdict, deque
    M = _ensure_classes()
    which = o['which']

    def cell():
        if which == 'list':
            t = []
            t.append(t)
        elif which == 'dict':
            t = {}
            t['a'] = t
        elif which == 'odict':
            t = OrderedDict()
            t['a'] = t
        elif which == 'ddict':
            t = defaultdict(list)
            t['a'] = t
        elif which == 'deque':
            t = deque()
            t.append(t)
        elif which == 'custom':
            t = M.Loop()
        else:
            t = [None]
            t[0] = (t,)
        kw = {'namespace': 'c16'}
        return [_outcome(lambda: optree.tree_flatten(t, **kw)), _outcome(lambda: optree.tree_flatten_with_path(t, **kw)),
                _outcome(lambda: list(optree.tree_iter(t, **kw))), _outcome(lambda: optree.tree_map(lambda x: x, t, **kw)),
                _outcome(lambda: optree.tree_paths(t, **kw)), _outcome(lambda: optree.tree_flatten_with_accessor(t, **kw))]
    status, text = M.in_child(cell, timeout=300)
    if status != 'ok':
        return [{'key': f'selfref-crash-{which}', 'what': f'self-referential {which}: {status}', 'stderr': text[-800:]}]
    res = eval(text.split(' ', 1)[1])      # noqa: S307
    if set(res) != {'RecursionError'}:
        return [{'key': f'selfref-{which}', 'what': f'self-referential {which}: outcomes {res}, expected RecursionError everywhere'}]
    return []


def _build_cell(M, kind, n=5):
    """a container of `kind` with n children (leaves), its mutable handle and key list"""
    from collections import OrderedDict, defaultdict, deque
    Lf = M.Lf
    items = [Lf(3 * 10**6 + i) for i in range(n)]
    keys = [f'k{i}' for i in range(n)]
    if kind == 'list':
        c = list(items)
    elif kind == 'dict':
        c = dict(zip(keys, items))
    elif kind == 'odict':
        c = OrderedDict(zip(keys, items))
    elif kind == 'ddict':
        c = defaultdict(int, zip(keys, items))
    elif kind == 'deque':
        c = deque(items)
    elif kind == 'custom':
        c = M.Box(list(items))
    elif kind == 'nested':
        c = [list(items), dict(zip(keys, items))]
    return c, items, keys


def _mutators(M, c, kind, items, keys, at, mutation):
    """the action user code performs while child `at` is being visited"""
    Lf = M.Lf

    def on_list(lst):
        if mutation == 'del-before':
            if at > 0:
                del lst[0]
            elif lst:
                del lst[0]
        elif mutation == 'del-after':
            if len(lst) > at + 1:
                del lst[at + 1:]
            elif lst:
                lst.pop()
        elif mutation == 'clear':
            lst.clear()
        elif mutation == 'append':
            lst.extend(Lf(4 * 10**6 + j) for j in range(50))
        elif mutation == 'replace':
            for j in range(len(lst)):
                lst[j] = [Lf(5 * 10**6 + j)]

    def on_dict(d):
        if mutation == 'del-before':
            d.pop(keys[max(at - 1, 0)], None)
        elif mutation == 'del-after':
            for k in keys[at + 1:] or keys[-1:]:
                d.pop(k, None)
        elif mutation == 'clear':
            d.clear()
        elif mutation == 'append':
            for j in range(50):
                d[f'zz{j}'] = Lf(4 * 10**6 + j)
        elif mutation == 'replace':
            for k in list(d):
                d[k] = [Lf(5 * 10**6)]

    def act():
        if kind in ('list',):
            on_list(c)
        elif kind == 'deque':
            lst = list(c)
            on_list(lst)
            c.clear()
            c.extend(lst)
        elif kind in ('dict', 'odict', 'ddict'):
            on_dict(c)
        elif kind == 'custom':
            on_list(c.kids)
        elif kind == 'nested':
            on_list(c[0])
            on_dict(c[1])
            on_list(c)
    return act


def _mutate(impl, o):
    import optree
    M = _ensure_classes()
    fails = []

    def run_cell(trav, kind, trig, pos, mutation):
        n = 5
        c, items, keys = _build_cell(M, kind, n)
        at = {'first': 0, 'middle': n // 2, 'last': n - 1}[pos]
        act = _mutators(M, c, kind, items, keys, at, mutation)
        kw = {'namespace': 'c16'}
        fired = [False]
        if trig == 'pred':
            target = items[at]

            def pred(x):
                if x is target and not fired[0]:
                    fired[0] = True
                    act()
                return False
            kw['is_leaf'] = pred
        else:
            trigger = M.Trigger()

            def once():
                fired[0] = True
                act()
            M.Trigger.action = once
            # put the trigger node in place of child `at`
            if kind == 'list':
                c[at] = trigger
            elif kind in ('dict', 'odict', 'ddict'):
                c[keys[at]] = trigger
            elif kind == 'deque':
                c[at] = trigger
            elif kind == 'custom':
                c.kids[at] = trigger
            elif kind == 'nested':
                c[0][at] = trigger
                c[1][keys[at]] = trigger
        ident = lambda x: x      # noqa: E731
        spec0 = optree.tree_structure(_build_cell(M, kind, n)[0], namespace='c16')
        calls = {
            'flatten': lambda: optree.tree_flatten(c, **kw),
            'flatten_with_path': lambda: optree.tree_flatten_with_path(c, **kw),
            'flatten_with_accessor': lambda: optree.tree_flatten_with_accessor(c, **kw),
            'iter': lambda: list(optree.tree_iter(c, **kw)),
            'leaves': lambda: optree.tree_leaves(c, **kw),
            'structure': lambda: optree.tree_structure(c, **kw),
            'paths': lambda: optree.tree_paths(c, **kw),
            'accessors': lambda: optree.tree_accessors(c, **kw),
            'map': lambda: optree.tree_map(ident, c, **kw),
            'map_with_path': lambda: optree.tree_map_with_path(lambda p, x: x, c, **kw),
            'flatten_up_to': lambda: spec0.flatten_up_to(c),
            'broadcast_prefix': lambda: optree.tree_broadcast_prefix(c, c, **kw),
            'from_collection': lambda: optree.treespec_from_collection(c, namespace='c16'),
        }
        out = calls[trav]()
        # a consistent result: every leaf is a live object of a known type
        leaves = optree.tree_leaves(out, namespace='c16', is_leaf=lambda x: isinstance(x, (M.Lf, M.Trigger, optree.PyTreeSpec)))
        bad = [type(x).__name__ for x in leaves
               if not isinstance(x, (M.Lf, M.Trigger, optree.PyTreeSpec, optree.PyTreeAccessor, str, int, tuple, type(None)))]
        return {'fired': fired[0], 'odd_leaves': bad[:3]}
    for cell in o['cells']:
        trav, kind, trig, pos, mutation = cell
        M.Trigger.action = None
        status, text = M.in_child(lambda: run_cell(trav, kind, trig, pos, mutation), timeout=60)
        key = f'{trav}-{kind}-{trig}'
        if status.startswith('crash') or status == 'timeout':
            fails.append({'key': f'mutation-crash-{key}', 'what': f'{trav} over a {kind} mutated ({mutation}) by the '
                          f'{"is_leaf predicate" if trig == "pred" else "flatten function of a sibling"} while child {pos} is '
                          f'visited: {status}', 'cell': cell, 'stderr': text[-600:]})
        elif status == 'ok' and "'odd_leaves': []" not in text:
            fails.append({'key': f'mutation-garbage-{key}', 'what': f'{trav} over a mutated {kind} ({mutation}, {pos}, {trig}) '
                          f'returned unexpected objects: {text[:200]}', 'cell': cell})
    return fails


def _unflat(impl, o):
    """`treespec.unflatten(leaves)` / `tree_unflatten` where the unflatten function of a custom node changes the very
    container the leaves are being read from"""
    import optree
    from collections import deque
    M = _ensure_classes()
    fails = []

    def run_cell(trav, kind, pos, mutation):
        n = 5
        Lf = M.Lf
        at = {'first': 0, 'middle': n // 2, 'last': n - 1}[pos]
        shape = [Lf(i) for i in range(n)]
        shape[at] = M.UTrigger(Lf(at))                     # the node is completed after leaf `at` has been read
        nil = trav.endswith('none-is-leaf')
        spec = optree.tree_structure(shape, namespace='c16', none_is_leaf=nil)
        items = [Lf(3 * 10**6 + i) for i in range(n)]
        keys = [f'k{i}' for i in range(n)]
        if kind == 'list':
            c = list(items)
            leaves = c
        elif kind == 'deque':
            c = deque(items)
            leaves = c
        else:
            c = dict(zip(keys, items))
            leaves = c.values()
        fired = [False]
        act = _mutators(M, c, {'dictvalues': 'dict'}.get(kind, kind), items, keys, at, mutation)

        def once():
            fired[0] = True
            act()
        M.UTrigger.action = once
        out = spec.unflatten(leaves) if trav.startswith('spec.') else optree.tree_unflatten(spec, leaves)
        got = optree.tree_leaves(out, namespace='c16', is_leaf=lambda x: isinstance(x, M.Lf) or (isinstance(x, list) and len(x) == 1))
        bad = [type(x).__name__ for x in got if not isinstance(x, (M.Lf, list))]
        return {'fired': fired[0], 'odd_leaves': bad[:3], 'n': len(got)}
    for cell in o['cells']:
        trav, kind, pos, mutation = cell
        M.UTrigger.action = None
        status, text = M.in_child(lambda: run_cell(trav, kind, pos, mutation), timeout=60)
        key = f'{trav}-{kind}'
        if status.startswith('crash') or status == 'timeout':
            fails.append({'key': f'unflatten-mutation-crash-{key}', 'what': f'{trav} reading its leaves from a {kind} that the '
                          f'unflatten function of a custom node mutates ({mutation}) after leaf {pos}: {status}', 'cell': cell,
                          'stderr': text[-600:]})
        elif status == 'ok' and ("'odd_leaves': []" not in text or "'fired': True" not in text or "'n': 5" not in text):
            fails.append({'key': f'unflatten-mutation-garbage-{key}', 'what': f'{trav} over a mutated {kind} ({mutation}, {pos}) '
                          f'returned {text[:200]}', 'cell': cell})
    return fails


def _malformed_return(M, shape):
    """what the flatten function of class Mal returns for this cell"""
    def kids(spec):
        if spec.startswith('gen:'):
            n = int(spec[4:])
            return (i for i in range(n))
        if spec == 'int':
            return 7
        if spec == 'None':
            return None
        if spec == 'str':
            return 'abc'
        if spec == 'dict':
            return {'p': 1, 'q': 2}
        return [i for i in range(int(spec))]

    def ents(spec):
        if spec.startswith('list'):
            return [f'e{i}' for i in range(int(spec[4:]))]
        if spec.startswith('gen'):
            return (f'e{i}' for i in range(int(spec[3:])))
        if spec == 'int':
            return 5
        if spec == 'str':
            return 'xyz'
        return tuple(f'e{i}' for i in range(int(spec)))
    if shape == 'len0':
        return ()
    if shape == 'len1':
        return ([1, 2],)
    if shape == 'len4':
        return ([1, 2], None, ('a', 'b'), 0)
    if shape == 'notuple':
        return 42
    if shape == 'list3':
        return [[1, 2], None, ('a', 'b')]
    parts = shape.split('-')
    c, e = parts[0][1:], parts[1][1:]
    return (kids(c), None, ents(e))


def _malformed(impl, o):
    """a registered flatten function returning inconsistent (children, metadata, entries): every traversal must raise a Python
    exception (or succeed), never read outside the entries tuple / crash / hang"""
    import optree
    M = _ensure_classes()
    fails = []

    class Mal:
        shape = 'c3-E2'

    def mal_flatten(x):
        return _malformed_return(M, Mal.shape)
    try:
        optree.register_pytree_node(Mal, mal_flatten, lambda md, kids: Mal(), namespace='c16mal')
    except ValueError:
        pass

    def run_cell(trav, shape):
        Mal.shape = shape.replace('-nested', '').replace('-deep', '')
        t = Mal()
        if shape.endswith('-nested'):
            t = {'k': [Mal(), (1, Mal())], 'z': Mal()}
        elif shape.endswith('-deep'):
            for _ in range(30):
                t = [t, 0]
        kw = {'namespace': 'c16mal'}
        ident = lambda x: x      # noqa: E731
        calls = {
            'flatten': lambda: optree.tree_flatten(t, **kw),
            'flatten_with_path': lambda: optree.tree_flatten_with_path(t, **kw),
            'flatten_with_accessor': lambda: optree.tree_flatten_with_accessor(t, **kw),
            'iter': lambda: list(optree.tree_iter(t, **kw)),
            'leaves': lambda: optree.tree_leaves(t, **kw),
            'structure': lambda: optree.tree_structure(t, **kw),
            'paths': lambda: optree.tree_paths(t, **kw),
            'accessors': lambda: optree.tree_accessors(t, **kw),
            'map': lambda: optree.tree_map(ident, t, **kw),
            'map_with_path': lambda: optree.tree_map_with_path(lambda p, x: x, t, **kw),
            'map_with_accessor': lambda: optree.tree_map_with_accessor(lambda a, x: x, t, **kw),
            'flatten_one_level': lambda: optree.tree_flatten_one_level(t, **kw),
            'from_collection': lambda: optree.treespec_from_collection(t, **kw),
            'flatten_up_to': lambda: optree.tree_structure([0, 0], **kw).flatten_up_to([t, t]),
            'broadcast_prefix': lambda: optree.tree_broadcast_prefix(t, t, **kw),
            'transpose_map_with_path': lambda: optree.tree_transpose_map_with_path(lambda p, x: (x, x), t, **kw),
        }
        try:
            calls[trav]()
            return 'returned'
        except RecursionError:
            return 'RecursionError'
        except Exception as e:   # noqa: BLE001
            return type(e).__name__
    for trav, shape in o['cells']:
        status, text = M.in_child(lambda: run_cell(trav, shape), timeout=60)
        if status.startswith('crash') or status == 'timeout':
            fails.append({'key': f'malformed-crash-{trav}', 'what': f'{trav} over a custom node whose flatten function returns '
                          f'{shape}: {status}', 'cell': [trav, shape], 'stderr': text[-600:]})
        elif status == 'ok' and ('InternalError' in text or 'SystemError' in text):
            fails.append({'key': f'malformed-internal-{trav}', 'what': f'{trav} over a custom node whose flatten function returns '
                          f'{shape}: {text[:120]}', 'cell': [trav, shape]})
    return fails


def _hostile(impl, o):
    import collections
    import os
    import pickle
    import signal
    import optree
    P = collections.namedtuple('P', ['x', 'y'])
    trees = [{'a': 1, 'b': (2, 3)}, [1, (2, None), collections.OrderedDict(z=3, y=4)], P(1, [2, 3]),
             collections.defaultdict(int, {'k': 1, 'j': 2}), collections.deque([1, 2], maxlen=3), (1, [2, [3, 4]])]
    t, nil = trees[o['tree']], o['nil']
    spec = optree.tree_structure(t, none_is_leaf=nil)
    nodes, _, ns = spec.__getstate__()
    nodes = [list(n) for n in nodes]
    states = []
    for i, n in enumerate(nodes):
        for fld, vals in ((1, [n[1] + 1, n[1] + 7, 0, 64, 1000]), (5, [0, n[5] + 3]), (6, [1, n[6] + 5]), (0, [2, 3, 4, 6, 7, 8, 10])):
            for v in vals:
                if v != n[fld]:
                    m = [list(x) for x in nodes]
                    m[i][fld] = v
                    states.append((f'record {i}: field {("kind", "arity", "", "", "", "num_leaves", "num_nodes")[fld]} = {v}',
                                   (tuple(tuple(x) for x in m), nil, ns)))
    states.append(('first record dropped', (tuple(tuple(x) for x in nodes[1:]), nil, ns)))
    states.append(('only the root record', ((tuple(nodes[-1]),), nil, ns)))
    # a keyed node with as many keys as its arity says, but fewer completed sub-trees in front of it
    for kind, data in ((4, ['k%d' % j for j in range(8)]), (7, ['k%d' % j for j in range(64)])):
        states.append((f'kind {kind} of arity {len(data)} after one leaf',
                       (((1, 0, None, None, None, 1, 1), (kind, len(data), data, None, None, len(data), 2, data) if kind == 4 else
                         (kind, len(data), data, None, None, len(data), 2)), nil, ns)))
    methods = {
        'repr': repr, 'str': str, 'hash': hash, 'eq': lambda s: s == s, 'paths': lambda s: s.paths(),
        'accessors': lambda s: s.accessors(), 'entries': lambda s: s.entries(), 'children': lambda s: s.children(),
        'unflatten': lambda s: s.unflatten(range(s.num_leaves)),
        'flatten_up_to': lambda s: s.flatten_up_to(s.unflatten(range(s.num_leaves))), 'compose': lambda s: s.compose(s),
        'walk': lambda s: s.walk(range(s.num_leaves)), 'traverse': lambda s: s.traverse(range(s.num_leaves)),
        'pickle': lambda s: pickle.loads(pickle.dumps(s)), 'is_prefix': lambda s: s.is_prefix(s), 'one_level': lambda s: s.one_level(),
        'child': lambda s: s.child(0), 'transform': lambda s: s.transform(lambda x: x, lambda x: x),
        'broadcast': lambda s: s.broadcast_to_common_suffix(s), 'kind-type': lambda s: (s.kind, s.type, s.num_children),
    }
    fails = []
    if 'ASAN_OPTIONS' in os.environ:
        # the sanitizer pass forks an instrumented interpreter per cell (slow): every third single-field state, all
        # structural states, the methods that read node data / entries / counts
        states = [st for i, st in enumerate(states) if i % 3 == 0 or not st[0].startswith('record ')]
        methods = {k: methods[k] for k in ('repr', 'hash', 'paths', 'accessors', 'entries', 'unflatten', 'walk', 'pickle', 'is_prefix')}
    for label, st in states:
        for mname, m in methods.items():
            pid = os.fork()
            if pid == 0:
                try:
                    devnull = os.open(os.devnull, os.O_WRONLY)
                    os.dup2(devnull, 2)
                    signal.alarm(30)
                    s = optree.PyTreeSpec.__new__(optree.PyTreeSpec)
                    s.__setstate__(st)
                    m(s)
                except BaseException:   # noqa: BLE001
                    pass
                finally:
                    os._exit(0)
            _, status = os.waitpid(pid, 0)
            if os.WIFSIGNALED(status) and os.WTERMSIG(status) != signal.SIGALRM:
                fails.append({'key': f'hostile-state-crash-{mname}', 'what': f'treespec restored by __setstate__ from the state of '
                              f'{t!r} with {label}: {mname} ended the interpreter with signal {os.WTERMSIG(status)}',
                              'state': repr(st)[:400]})
                break       # one report per state
    return fails


def _confuse(impl, o):
    import random
    import optree
    M = _ensure_classes()
    rng = random.Random(o['seed'])
    fails = []
    spec = optree.tree_structure({'a': (1, [2, None]), 'b': M.Box([3])}, namespace='c16')
    leafspec = optree.tree_structure(1)
    junk = [None, 0, -1, 10**30, 1.5, 'str', b'bytes', (), [], {}, set(), object(), int, len, lambda *a, **k: None,
            [1, 2], (1,), {'a': 1}, spec, leafspec, [spec], (spec, 3), {'a': spec}, iter([1, 2]), range(3), NotImplemented,
            Ellipsis, type, 'ns', '', 2**63, -2**63, float('nan'), M.Box(3), M.Box(None), M.Trigger(), [[]], {1: {2: {}}}]
    fns = {
        'tree_flatten': lambda a, b, c: optree.tree_flatten(a, is_leaf=b, namespace=c if isinstance(c, str) else 'c16'),
        'tree_flatten_nil': lambda a, b, c: optree.tree_flatten(a, none_is_leaf=b, namespace=c),
        'tree_unflatten': lambda a, b, c: optree.tree_unflatten(a, b),
        'spec.unflatten': lambda a, b, c: spec.unflatten(a),
        'spec.flatten_up_to': lambda a, b, c: spec.flatten_up_to(a),
        'spec.child': lambda a, b, c: spec.child(a),
        'spec.entry': lambda a, b, c: spec.entry(a),
        'spec.compose': lambda a, b, c: spec.compose(a),
        'spec.broadcast': lambda a, b, c: spec.broadcast_to_common_suffix(a),
        'spec.is_prefix': lambda a, b, c: spec.is_prefix(a, strict=b) if isinstance(b, bool) else spec.is_prefix(a),
        'spec.cmp': lambda a, b, c: (spec == a, spec != a, spec <= a if not isinstance(a, optree.PyTreeSpec) else None),
        'spec.transform': lambda a, b, c: spec.transform(a, b),
        'spec.walk': lambda a, b, c: spec.walk(a, b, c),
        'spec.traverse': lambda a, b, c: spec.traverse(a, b, c),
        'spec.setstate': lambda a, b, c: __import__('copy').copy(spec).__setstate__(a),
        'spec.setstate3': lambda a, b, c: __import__('copy').copy(spec).__setstate__((a, b, c)),
        'spec.setstate_nodes': lambda a, b, c: __import__('copy').copy(spec).__setstate__((((a, b, c, None, None, 1, 1, None),), False, '')),
        'tree_map': lambda a, b, c: optree.tree_map(a, b, c),
        'tree_map_': lambda a, b, c: optree.tree_map_(a, b),
        'tree_transpose': lambda a, b, c: optree.tree_transpose(a, b, c),
        'tree_broadcast_prefix': lambda a, b, c: optree.tree_broadcast_prefix(a, b),
        'tree_broadcast_common': lambda a, b, c: optree.tree_broadcast_common(a, b),
        'prefix_errors': lambda a, b, c: optree.prefix_errors(a, b),
        'treespec_from_collection': lambda a, b, c: optree.treespec_from_collection(a, none_is_leaf=bool(b)),
        'treespec_tuple': lambda a, b, c: optree.treespec_tuple(a),
        'treespec_dict': lambda a, b, c: optree.treespec_dict(a),
        'treespec_namedtuple': lambda a, b, c: optree.treespec_namedtuple(a),
        'treespec_ordereddict': lambda a, b, c: optree.treespec_ordereddict(a),
        'treespec_defaultdict': lambda a, b, c: optree.treespec_defaultdict(a, b),
        'treespec_deque': lambda a, b, c: optree.treespec_deque(a, maxlen=b if isinstance(b, int) else None),
        'treespec_structseq': lambda a, b, c: optree.treespec_structseq(a),
        'tree_iter': lambda a, b, c: list(optree.tree_iter(a, is_leaf=b if callable(b) else None)),
        'register': lambda a, b, c: optree.register_pytree_node(a, b, c, namespace='c16junk'),
        'unregister': lambda a, b, c: optree.unregister_pytree_node(a, namespace=b if isinstance(b, str) and b else 'c16junk'),
        'is_namedtuple': lambda a, b, c: (optree.is_namedtuple(a), optree.is_structseq(a), optree.is_namedtuple_class(a),
                                          optree.is_structseq_class(a)),
        'namedtuple_fields': lambda a, b, c: optree.namedtuple_fields(a),
        'structseq_fields': lambda a, b, c: optree.structseq_fields(a),
        'accessor': lambda a, b, c: optree.PyTreeAccessor(a)(b),
        'dict_insertion_ordered': lambda a, b, c: optree.dict_insertion_ordered(a, namespace=b).__enter__(),
        'tree_ravel_none': lambda a, b, c: optree.tree_flatten_one_level(a, none_is_leaf=bool(b), namespace='c16'),
    }
    names = sorted(fns)
    # every function with every single junk value in its first argument, then random triples
    trials = [(n, j, 0, 0) for n in names for j in range(len(junk))]
    while len(trials) < len(names) * len(junk) + o['n']:
        trials.append((rng.choice(names), rng.randrange(len(junk)), rng.randrange(len(junk)), rng.randrange(len(junk))))
    batch = 40
    for i in range(0, len(trials), batch):
        chunk = trials[i:i + batch]

        def run_chunk():
            outs = []
            for n, a, b, c in chunk:
                try:
                    fns[n](junk[a], junk[b], junk[c])
                    outs.append('ok')
                except BaseException as e:   # noqa: BLE001
                    outs.append(type(e).__name__)
            return outs
        status, text = M.in_child(run_chunk, timeout=120)
        if status == 'ok':
            outs = eval(text.split(' ', 1)[1])      # noqa: S307
            for (n, a, b, c), r in zip(chunk, outs):
                if r in ('InternalError', 'SystemError'):
                    fails.append({'key': f'confuse-internal-{n}', 'what': f'{n}({type(junk[a]).__name__}, {type(junk[b]).__name__}, '
                                  f'{type(junk[c]).__name__}) raised {r}', 'args': [a, b, c]})
            continue
        # find the trial that kills the interpreter
        for n, a, b, c in chunk:
            st, tx = M.in_child(lambda: fns[n](junk[a], junk[b], junk[c]) and None, timeout=60)
            if st.startswith('crash') or st == 'timeout':
                fails.append({'key': f'confuse-crash-{n}', 'what': f'{n}({type(junk[a]).__name__}, {type(junk[b]).__name__}, '
                              f'{type(junk[c]).__name__}): {st}', 'args': [a, b, c], 'stderr': tx[-600:]})
    return fails


def _deepspec(impl, o):
    import optree
    M = _ensure_classes()
    depth = o['depth']
    fails = []
    methods = {
        'paths': lambda s: len(s.paths()),
        'accessors': lambda s: len(s.accessors()),
        'broadcast_to_common_suffix': lambda s: s.broadcast_to_common_suffix(s).num_nodes,
        'is_prefix': lambda s: s.is_prefix(s),
        'eq': lambda s: s == s,
        'hash': lambda s: hash(s) is not None,
        'repr': lambda s: len(repr(s)),
        'unflatten': lambda s: type(s.unflatten([1])).__name__,
        'flatten_up_to': lambda s: len(s.flatten_up_to(s.unflatten([1]))),
        'children': lambda s: len(s.children()),
        'child': lambda s: s.child(0).num_nodes,
        'one_level': lambda s: s.one_level().num_nodes,
        'entries': lambda s: s.entries(),
        'compose': lambda s: s.compose(s).num_nodes,
        'transform': lambda s: s.transform(lambda x: x, lambda x: x).num_nodes,
        'pickle': lambda s: __import__('pickle').loads(__import__('pickle').dumps(s)) == s,
        'copy': lambda s: __import__('copy').deepcopy(s) == s,
        'walk': lambda s: s.walk([1], lambda ty, md, ch: None, lambda x: x),
        'traverse': lambda s: type(s.traverse([1], lambda n: n, lambda x: x)).__name__,
        'tree_map_on_unflattened': lambda s: _outcome(lambda: optree.tree_map(lambda x: x, s.unflatten([1]))),
        'gc': lambda s: __import__('gc').collect() >= 0,
    }
    for name, f in methods.items():
        status, text = M.in_child(lambda: f(M.chain_spec(depth, o.get('chain', 'list'))), timeout=300)
        if status == 'timeout':
            # repr / pickle of a 60 000 .. 200 000 deep treespec is quadratic and can exceed the limit on a loaded machine or
            # under the sanitizer; running out of time is not a memory-safety observation (a stack overflow or an invalid
            # access ends the child with a signal, which is what this cell looks for)
            fails.append({'key': f'inconclusive-deepspec-timeout-{name}',
                          'what': f'treespec of depth {depth} ({o.get("chain", "list")} chain): {name} did not finish in 300 s'})
        elif status.startswith('crash'):
            fails.append({'key': f'deepspec-crash-{name}-{o.get("chain", "list")}',
                          'what': f'treespec of depth {depth} ({o.get("chain", "list")} chain built with compose): {name}: {status}',
                          'stderr': text[-600:]})
        elif status == 'exc' and ('InternalError' in text or 'SystemError' in text):
            fails.append({'key': f'deepspec-internal-{name}', 'what': f'treespec of depth {depth}: {name}: {text[:200]}'})
    return fails
