"""C05  tree_map family calls the function once per leaf, in order, on aligned arguments."""

from __future__ import annotations

from sexp import A, Atom, parse, render
from props.common import in_cfg, op, has_internal_node
from props.C07 import get_by_path
from gen import near_miss, relabel_leaves, substitute_leaves, vary_dicts

RULE = ('(tree, 0-3 rests, function) triples: rests are suffixes (leaf substitution), dict-kind / key-order / maxlen '
        'variants, or one-edit near misses; all six map variants and tree_broadcast-free walk / traverse; distinct by '
        'request text; non-trivial = the tree has an internal node')


def generate(gen, tier):
    rng = gen.rng
    n = 220 if tier == 'quick' else 8000
    cases = []
    for i in range(n):
        t = gen.tree(depth=rng.choice([2, 3, 3]), width=rng.choice([3, 4]),
                     weights=[3, 3, 4, 3, 2, 2, 2, 1, 4, 1, 3])
        cfg = gen.cfg(pred=rng.choice([0, 0, 0, 1, 2, 6]))
        k = rng.choice([0, 0, 1, 1, 2, 3])
        rests = []
        bad = False
        for _ in range(k):
            c = rng.random()
            if c < 0.5:
                rests.append(substitute_leaves(gen, relabel_leaves(gen, t), 0.4, 2))
            elif c < 0.8:
                rests.append(vary_dicts(gen, substitute_leaves(gen, relabel_leaves(gen, t), 0.3, 1)))
            else:
                r, _ = near_miss(gen, relabel_leaves(gen, t))
                rests.append(r)
                bad = True
        variant = rng.choice(['plain', 'plain', 'path', 'acc'])
        inplace = rng.random() < 0.3
        fid = rng.choice([0, 1, 1, 2, 3, 4])
        lines = [op('map', A(variant), A('1' if inplace else '0'), cfg, fid, t, *rests)]
        # the other variants on the same arguments (same calls, same result or the original tree), and tree_replace_nones
        others = [(v, ip) for v in ('plain', 'path', 'acc') for ip in (False, True) if (v, ip) != (variant, inplace)]
        for v, ip in rng.sample(others, 3):
            lines.append(op('map', A(v), A('1' if ip else '0'), cfg, rng.choice([0, 1, 2, 7, 9]), t, *rests))
        if not rests:
            lines.append(op('replace_nones', cfg, t))
        cases.append({'lines': lines, 'o': {'cfg': render(cfg), 'tree': render(t), 'rests': [render(r) for r in rests],
                                            'near': bad}})
    # a class registered in the requested namespace only, reachable only through a dict-kind node (or directly), with rests:
    # every variant has to match the rests in that namespace
    for ns, c in (('a', 2), ('b', 4)):
        for wrap in ('D', 'O', 'DD', 'l', 'none'):
            for nrest in (1, 2):
                node = [A('U'), c, gen.md(), A('ok'), gen.leaf(0), [A('T'), gen.leaf(0), A('N')]]
                if wrap == 'none':
                    t = node
                elif wrap == 'l':
                    t = [A('l'), gen.leaf(0), node]
                elif wrap == 'DD':
                    t = [A('DD'), 1, [[A('s'), 'k'], node], [[A('s'), 'j'], gen.leaf(0)]]
                else:
                    t = [A(wrap), [[A('s'), 'k'], node], [[A('s'), 'j'], gen.leaf(0)]]
                cfg = gen.cfg(ns=ns, pred=0)
                rests = [substitute_leaves(gen, relabel_leaves(gen, t), 0.3, 1) for _ in range(nrest)]
                lines = [op('map', A(v), A('1' if ip else '0'), cfg, rng.choice([0, 1, 2]), t, *rests)
                         for v in ('plain', 'path', 'acc') for ip in (False, True)]
                cases.append({'lines': lines, 'o': {'cfg': render(cfg), 'tree': render(t), 'rests': [render(r) for r in rests],
                                                    'near': False}})
    return cases


def nontrivial(case):
    return has_internal_node(parse(case['o']['tree']))


def distribution(cases):
    d = {}
    for c in cases:
        k = f"rests={len(c['o']['rests'])}{' near-miss' if c['o']['near'] else ''}"
        d[k] = d.get(k, 0) + 1
    return {'rest_classes': d}


def outcome(f):
    try:
        return ('ok', f())
    except Exception as e:  # noqa: BLE001
        return ('err', type(e).__name__, e)


class Box:
    """fresh result object"""
    def __init__(self, *payload):
        self.payload = payload


def structure_copy_ok(u, a, b, leaves):
    """b is structurally identical to a, built from new containers and the same leaf objects"""
    from collections import deque
    from universe import UBase
    leaf_ids = {id(x) for x in leaves}

    def go(x, y):
        if id(x) in leaf_ids:
            return x is y
        if x is None:
            return y is None
        if type(x) is not type(y):
            return False
        if isinstance(x, (tuple, list, deque)):
            if len(x) != len(y) or (x is y and len(x) > 0 and type(x) is not tuple):
                return False
            if isinstance(x, deque) and x.maxlen != y.maxlen:
                return False
            return all(go(p, q) for p, q in zip(x, y))
        if isinstance(x, dict):
            if list(x) != list(y) or x is y:
                return False
            if hasattr(x, 'default_factory') and x.default_factory is not y.default_factory:
                return False
            return all(go(x[k], y[k]) for k in x)
        if isinstance(x, UBase):
            if x.md != y.md or len(x.children) != len(y.children) or x is y:
                return False
            return all(go(p, q) for p, q in zip(x.children, y.children))
        return x is y
    return go(a, b)


def oracle(impl, o):
    import optree
    u = impl.u
    fails = []
    tree = u.obj(parse(o['tree']))
    rests = [u.obj(parse(r)) for r in o['rests']]
    before = render(u.enc_obj(tree))
    with in_cfg(impl, o['cfg']) as kw:
        try:
            paths, leaves, spec = optree.tree_flatten_with_path(tree, **kw)
        except Exception:
            return []
        accs = spec.accessors()
        ups = [outcome(lambda r=r: spec.flatten_up_to(r)) for r in rests]
        all_prefix = all(x[0] == 'ok' for x in ups)
        # independent judge of "rest has t's structure as a prefix" (flatten_up_to ignores is_leaf on the rest)
        from props.C09 import ref_is_prefix
        try:
            ref_all = all(ref_is_prefix(tree, r, kw['is_leaf'], kw['none_is_leaf'], kw['namespace'],
                                        bool(optree._C.is_dict_insertion_ordered(kw['namespace'])))
                          for r in rests) if kw['is_leaf'] is None else all_prefix
        except Exception:
            ref_all = all_prefix
        if ref_all != all_prefix:
            fails.append({'key': 'prefix-judgement', 'what': f'flatten_up_to {"accepts" if all_prefix else "rejects"} the rests but by the documented rules they {"are" if ref_all else "are not"} suffixes of the tree'})
            all_prefix = ref_all
        variants = [('tree_map', None), ('tree_map_', None), ('tree_map_with_path', paths),
                    ('tree_map_with_path_', paths), ('tree_map_with_accessor', accs),
                    ('tree_map_with_accessor_', accs)]
        for name, extra in variants:
            calls = []

            def f(*args):
                calls.append(args)
                return Box(len(calls))
            r = outcome(lambda: getattr(optree, name)(f, tree, *rests, **kw))
            if not all_prefix:
                if r[0] == 'ok' or r[1] != 'ValueError':
                    fails.append({'key': 'non-prefix-not-valueerror', 'what': f'{name}: a rest is not a suffix but the call gave {r[:2]}'})
                elif calls:
                    fails.append({'key': 'called-before-failure', 'what': f'{name}: f was called {len(calls)} time(s) before the ValueError'})
                continue
            if r[0] != 'ok':
                fails.append({'key': 'map-raises', 'what': f'{name} raised {r[1]}: {r[2]}'})
                continue
            if len(calls) != len(leaves):
                fails.append({'key': 'call-count', 'what': f'{name}: f called {len(calls)} times for {len(leaves)} leaves'})
                continue
            off = 0 if extra is None else 1
            for i, args in enumerate(calls):
                if extra is not None and args[0] != extra[i]:
                    fails.append({'key': 'extra-arg', 'what': f'{name}: call {i} did not receive the {i}-th path / accessor'})
                    break
                if len(args) != off + 1 + len(rests) or args[off] is not leaves[i]:
                    fails.append({'key': 'leaf-arg', 'what': f'{name}: call {i} did not receive leaf {i}'})
                    break
                for k, rest in enumerate(rests):
                    try:
                        want = get_by_path(rest, paths[i], kw['namespace'])
                    except Exception as e:  # noqa: BLE001
                        fails.append({'key': 'rest-path-missing', 'what': f'{name}: path {paths[i]!r} missing in rest {k}: {e!r}'})
                        break
                    if args[off + 1 + k] is not want:
                        fails.append({'key': 'rest-arg', 'what': f'{name}: call {i}, rest {k}: not the subtree at the leaf path'})
                        break
            if name.endswith('_'):
                if r[1] is not tree:
                    fails.append({'key': 'underscore-return', 'what': f'{name} did not return the original tree object'})
            else:
                out_leaves, out_spec = optree.tree_flatten(r[1], **{**kw, 'is_leaf': lambda x: isinstance(x, Box)})
                if [b.payload[0] for b in out_leaves if isinstance(b, Box)] != list(range(1, len(leaves) + 1)) \
                        or len(out_leaves) != len(leaves):
                    fails.append({'key': 'result-leaves', 'what': f'{name}: i-th leaf of the result is not f(i-th call)'})
                if spec.num_leaves and not (out_spec == spec) and kw['is_leaf'] is None:
                    fails.append({'key': 'result-structure', 'what': f'{name}: result does not have the structure of the tree',
                                  'want': repr(spec)[:200], 'got': repr(out_spec)[:200]})
        if render(u.enc_obj(tree)) != before:
            fails.append({'key': 'input-mutated', 'what': 'a map variant modified the input tree'})
        # identity map: structurally identical copy, new containers, same leaves
        ident = outcome(lambda: optree.tree_map(lambda x: x, tree, **kw))
        if ident[0] != 'ok' or render(u.enc_obj(ident[1])) != before or not structure_copy_ok(u, tree, ident[1], leaves):
            if not (len(leaves) == 1 and leaves[0] is tree):
                fails.append({'key': 'identity-copy', 'what': 'tree_map(identity) is not a structurally identical copy from new containers and the same leaves'})
        # composition law for leaf-valued g
        g = lambda x: Box('g', x)           # noqa: E731
        h = lambda b: Box('h', b)           # noqa: E731
        kwb = {**kw, 'is_leaf': (lambda x: isinstance(x, Box) or (kw['is_leaf'] is not None and kw['is_leaf'](x)))}
        one = outcome(lambda: optree.tree_map(lambda x: h(g(x)), tree, **kw))
        two = outcome(lambda: optree.tree_map(h, optree.tree_map(g, tree, **kw), **kwb))
        if one[0] == 'ok' and two[0] == 'ok':
            l1 = optree.tree_leaves(one[1], **kwb)
            l2 = optree.tree_leaves(two[1], **kwb)
            sig = lambda ls: [(b.payload[0], b.payload[1].payload[0], id(b.payload[1].payload[1])) if isinstance(b, Box) else id(b) for b in ls]   # noqa: E731
            if sig(l1) != sig(l2) or optree.tree_structure(one[1], **kwb) != optree.tree_structure(two[1], **kwb):
                fails.append({'key': 'map-compose', 'what': 'map(f∘g) differs from map(f)∘map(g)'})
        # walk / traverse
        events = []
        r = outcome(lambda: spec.traverse(leaves, lambda node: events.append(('node', id(node))) or node,
                                          lambda leaf: events.append(('leaf', id(leaf))) or leaf))
        if r[0] == 'ok':
            leaf_events = [e[1] for e in events if e[0] == 'leaf']
            if leaf_events != [id(x) for x in leaves]:
                fails.append({'key': 'traverse-leaf-order', 'what': 'traverse does not apply the leaf function in leaf order'})
            n_internal = spec.num_nodes - spec.num_leaves
            if sum(1 for e in events if e[0] == 'node') != n_internal:
                fails.append({'key': 'traverse-node-count', 'what': 'traverse does not apply the node function once per internal node'})
        wevents = []
        r = outcome(lambda: spec.walk(leaves, lambda ty, data, children: wevents.append(('node', len(children))) or tuple(children),
                                      lambda leaf: wevents.append(('leaf', id(leaf))) or leaf))
        if r[0] == 'ok':
            if [e[1] for e in wevents if e[0] == 'leaf'] != [id(x) for x in leaves] or \
                    sum(1 for e in wevents if e[0] == 'node') != spec.num_nodes - spec.num_leaves:
                fails.append({'key': 'walk-order', 'what': 'walk does not visit leaves in order / each internal node once'})
            # post-order: a node event is preceded by the events of all its children
            need = 0
            stack = 0
            ok = True
            for e in wevents:
                if e[0] == 'leaf':
                    stack += 1
                else:
                    if stack < e[1]:
                        ok = False
                        break
                    stack -= e[1] - 1
            if not ok or (wevents and stack != 1):
                fails.append({'key': 'walk-postorder', 'what': 'walk applies a node function before its children were produced'})
        # re-entrancy: a leaf / node function that itself traverses (the same treespec and a second one) must not disturb the
        # traversal it runs inside: same result as the un-nested call, and the inner results are right too
        if spec.num_leaves and len(fails) == 0:
            enc = lambda x: render(u.enc_obj(x))        # noqa: E731
            flat = outcome(lambda: enc(spec.traverse(leaves)))
            small = optree.tree_structure((0, [1, {'k': 2}]))
            inner_results = []

            def nested_leaf(leaf):
                inner_results.append(enc(spec.traverse(leaves)))
                inner_results.append(repr(small.traverse([7, 8, 9], lambda n: n, lambda x: x + 1)))
                return leaf

            def nested_node(node):
                inner_results.append(repr(small.traverse([1, 2, 3])))
                return node
            for name, call in (('traverse', lambda: spec.traverse(leaves, nested_node, nested_leaf)),
                               ('walk', lambda: spec.walk(leaves, None, lambda leaf: (inner_results.append(enc(spec.walk(leaves))),
                                                                                      inner_results.append(repr(small.walk([7, 8, 9]))), leaf)[-1]))):
                inner_results.clear()
                got = outcome(lambda: enc(call()))
                if flat[0] == 'ok' and got != flat:
                    fails.append({'key': f'{name}-reentrant', 'what': f'{name} whose callbacks call {name} again returns something else than '
                                  f'the un-nested call', 'want': str(flat)[:200], 'got': str(got)[:200]})
                want_inner = {flat[1], repr((8, [9, {'k': 10}])), repr((1, [2, {'k': 3}])), repr((7, [8, {'k': 9}]))} if flat[0] == 'ok' else None
                if want_inner is not None and any(r not in want_inner for r in inner_results):
                    bad = [r for r in inner_results if r not in want_inner][0]
                    fails.append({'key': f'{name}-reentrant-inner', 'what': f'a {name} run inside a callback of another {name} returned a wrong '
                                  f'tree', 'got': bad[:200]})
    return fails
