"""C14  Treespecs are immutable values independent of their source tree and registry."""

from __future__ import annotations

from sexp import A, parse, render
from gen import STD_REGISTRY, near_miss, relabel_leaves, substitute_leaves, vary_dicts
from props.common import has_internal_node, in_cfg, op, tree_distribution

RULE = ('(a) inspection / mutation histories over 7 subjects x 7 inspection methods x 5 mutators (length <= 8); '
        '(b) random pytrees (all node kinds, option grid) with a second related tree: before/after snapshots around every '
        'public operation, mutation of every hand-out, then a random order of (mutate source containers, unregister / '
        're-register the custom types the spec mentions, delete tree and leaves, gc.collect) with re-observation after each; '
        '(c) reference cycles through metadata / entries / keys / default_factory / namedtuple class / iterator; '
        'distinct by request text; non-trivial = the tree has an internal node or the history mutates a hand-out')
TRANSLATORS = ['fresh']
EXTRA_TRUST = ['reference counts, weak references and the cyclic garbage collector are not modelled: they are observed on the '
               'implementation only (sys.getrefcount, weakref, gc.collect)',
               'harness/extract/fresh.py classifies return expressions and sort arguments by a list of copying forms; '
               'an unrecognised form is reported as an alias (obligation fails, failing-input search decides)']

SUBJECTS = ['dict', 'odict', 'ddict', 'custom', 'list', 'ntuple', 'deque']
MUTS = [('append', True), ('set0', True), ('clear', False), ('reverse', False), ('pop', False)]
CYCLES = ['meta', 'entries', 'dictkey', 'ddict_factory', 'nt_class', 'iter', 'child', 'compose', 'accessor']


def history(rng, n_ops):
    ops = []
    n_out = 0
    for _ in range(n_ops):
        if n_out == 0 or rng.random() < 0.45:
            ops.append([A('insp'), rng.randrange(7)])
            n_out += 1
        else:
            kind, has_arg = rng.choice(MUTS)
            i = rng.randrange(n_out + (1 if rng.random() < 0.05 else 0))
            ops.append([A('mut'), i, A(kind), rng.randrange(100)] if has_arg else [A('mut'), i, A(kind)])
    return ops


def generate(gen, tier):
    rng = gen.rng
    cases = []
    # every (subject, method, mutator) triple once, then random histories
    for s in SUBJECTS:
        for m in range(7):
            for kind, has_arg in MUTS:
                mut = [A('mut'), 0, A(kind), 7] if has_arg else [A('mut'), 0, A(kind)]
                cases.append({'lines': [op('aliashist', A(s), [A('insp'), m], mut)], 'o': {'kind': 'hist'}})
    for _ in range(150 if tier == 'quick' else 4000):
        cases.append({'lines': [op('aliashist', A(rng.choice(SUBJECTS)), *history(rng, rng.randrange(2, 9)))],
                      'o': {'kind': 'hist'}})
    n = 150 if tier == 'quick' else 4000
    for i in range(n):
        depth = rng.choice([2, 3, 3, 4] if tier == 'quick' else [2, 3, 4, 5, 6])
        t = gen.tree(depth=depth, width=rng.choice([3, 4, 5]))
        c = rng.random()
        if c < 0.3:
            t2 = vary_dicts(gen, relabel_leaves(gen, t))
        elif c < 0.6:
            t2 = substitute_leaves(gen, t)
        elif c < 0.8:
            t2 = near_miss(gen, t)[0]
        else:
            t2 = gen.tree(depth=2, width=3)
        cfg = gen.cfg()
        cases.append({'lines': [], 'o': {'kind': 'tree', 'cfg': render(cfg), 'tree': render(t), 'tree2': render(t2),
                                         'seed': rng.randrange(10**9)}})
    for c in CYCLES:
        for none_is_leaf in (False, True):
            # shape of the node whose payload closes the cycle: with children, childless (arity 0), childless and nested
            for shape in ('children', 'childless', 'nested-childless'):
                cases.append({'lines': [], 'o': {'kind': 'cycle', 'via': c, 'nil': none_is_leaf, 'shape': shape}})
    return cases


def nontrivial(case):
    o = case['o']
    if o['kind'] == 'hist':
        return 'mut' in case['lines'][0]
    if o['kind'] == 'tree':
        return has_internal_node(parse(o['tree']))
    return True


def distribution(cases):
    d = tree_distribution([c for c in cases if c['o']['kind'] == 'tree'])
    kinds = {}
    for c in cases:
        kinds[c['o']['kind']] = kinds.get(c['o']['kind'], 0) + 1
    d['case_kinds'] = kinds
    lens = {}
    for c in cases:
        if c['o']['kind'] == 'hist':
            n = len(parse(c['lines'][0])) - 2
            lens[n] = lens.get(n, 0) + 1
    d['history_lengths'] = lens
    return d


# ------------------------------------------------------------------------------------ implementation oracle

def _fresh_leaf_tree(s, counter):
    """the same tree with every leaf replaced by a new type-0 leaf with a private uid"""
    from sexp import Atom
    if isinstance(s, Atom):
        return s
    if s[0] == 'L':
        counter[0] += 1
        return [A('L'), 0, 5 * 10**8 + counter[0]]
    from gen import map_children
    return map_children(s, lambda c: _fresh_leaf_tree(c, counter))


def _deep_ids(x, out):
    from collections import deque
    from universe import UBase
    out.append(id(x))
    if isinstance(x, (list, tuple, deque)):
        for c in x:
            _deep_ids(c, out)
    elif isinstance(x, dict):
        for k, v in x.items():
            out.append(id(k))
            _deep_ids(v, out)
    elif isinstance(x, UBase):
        out.append(id(x.md))
        _deep_ids(x.children, out)
    return out


def _spec_snap(spec):
    return (repr(spec), repr(spec.__getstate__()), repr(spec.entries()), repr(spec.paths()), repr(spec.accessors()),
            repr(spec.children()), spec.num_leaves, spec.num_nodes, spec.num_children, spec.none_is_leaf,
            spec.namespace, hash(spec))


def _mutate_container(x, rng, Lf):
    """mutate one container of the source tree in place; returns True if something changed"""
    from collections import deque
    from universe import UBase
    t = type(x)
    if t is list:
        c = rng.randrange(3)
        if c == 0 or not x:
            x.append(Lf(-1))
        elif c == 1:
            x.clear()
        else:
            x.reverse()
            x.pop()
        return True
    if isinstance(x, dict):
        c = rng.randrange(3)
        if c == 0 or not x:
            x['@new'] = Lf(-2)
        elif c == 1:
            x.clear()
        else:
            k = next(iter(x))
            v = x.pop(k)
            x[k] = v          # moves the key to the end
            x.pop(next(iter(x)))
        return True
    if t is deque:
        x.append(Lf(-3))
        return True
    if isinstance(x, UBase):
        x.children.append(Lf(-4))
        x.md = 'changed'
        return True
    return False


def _containers(x, out):
    from collections import deque
    from universe import UBase
    if isinstance(x, (list, dict, deque, UBase)):
        out.append(x)
    if isinstance(x, (list, tuple, deque)):
        for c in x:
            _containers(c, out)
    elif isinstance(x, dict):
        for v in x.values():
            _containers(v, out)
    elif isinstance(x, UBase):
        for c in x.children:
            _containers(c, out)
    return out


def oracle(impl, o):
    if o['kind'] == 'hist':
        return []
    if o['kind'] == 'cycle':
        return _cycle_oracle(o)
    return _tree_oracle(impl, o)


def _cycle_oracle(o):
    import gc
    import weakref
    from collections import defaultdict, namedtuple
    import optree
    import alias_impl

    alias_impl.ensure_registered()
    via, nil = o['via'], o['nil']
    shape = o.get('shape', 'children')
    childless = shape != 'children'

    def wrap(t):
        return [0, (t, 1)] if shape == 'nested-childless' else t

    class Box:            # weakref-able, GC-tracked holder
        def __hash__(self):
            return 7

        def __eq__(self, other):
            return self is other

        def __lt__(self, other):
            return id(self) < id(other)

        def __call__(self):
            return 0

    def build():
        box = Box()
        if via == 'meta':
            spec = optree.tree_structure(wrap(alias_impl._Node(box, [] if childless else [1, (2, None)])), namespace='c14',
                                         none_is_leaf=nil)
            box.spec = spec
        elif via == 'entries':
            class N2:
                pass
            # (the entries come from the instance: a closure over `box` would put the registration,
            # which treespecs share and the collector cannot traverse, on the cycle)
            optree.register_pytree_node(N2, lambda n: ((1, 2), None, n.entries), lambda md, ch: N2(), namespace='c14cyc')
            try:
                n2 = N2()
                n2.entries = (box, 'e')
                spec = optree.tree_structure(n2, namespace='c14cyc', none_is_leaf=nil)
                del n2
            finally:
                optree.unregister_pytree_node(N2, namespace='c14cyc')
            box.spec = spec
        elif via == 'dictkey':
            spec = optree.tree_structure({box: 1, 'z': None}, none_is_leaf=nil)
            box.spec = spec
        elif via == 'ddict_factory':
            spec = optree.tree_structure(wrap(defaultdict(box, {} if childless else {'a': 1, 'b': None})), none_is_leaf=nil)
            box.spec = spec
        elif via == 'nt_class':
            NT = namedtuple('NT', [] if childless else ['a', 'b'])
            spec = optree.tree_structure(wrap(NT() if childless else NT(1, None)), none_is_leaf=nil)
            NT.spec = spec
            NT.box = box
        elif via == 'iter':
            lst = [1, None, box]
            it = optree.tree_iter(lst, none_is_leaf=nil)
            next(it)
            lst.append(it)
        elif via == 'child':
            spec = optree.tree_structure([wrap(alias_impl._Node(box, [] if childless else [1, None]))], namespace='c14',
                                         none_is_leaf=nil)
            box.spec = spec.child(0)
        elif via == 'compose':
            inner = optree.tree_structure(wrap(alias_impl._Node(box, [] if childless else [1, None])), namespace='c14',
                                          none_is_leaf=nil)
            outer = optree.tree_structure([0, 0], none_is_leaf=nil, namespace='c14')
            box.spec = outer.compose(inner)
        elif via == 'accessor':
            spec = optree.tree_structure(alias_impl._Node(box, [1, (2, None)]), namespace='c14', none_is_leaf=nil)
            box.acc = spec.accessors()
        return weakref.ref(box)

    gc.collect()
    r = build()
    gc.collect()
    if r() is not None:
        return [{'key': f'cycle-not-collected-{via}-{shape}',
                 'what': f'a treespec in a reference cycle through {via} (node shape: {shape}) is not reclaimed by gc.collect()'}]
    return []


def _tree_oracle(impl, o):
    import copy
    import gc
    import pickle
    import random
    import sys
    import warnings
    import weakref
    import optree
    from universe import Lf, UBase, class_of, make_flatten, make_unflatten
    from run_impl import ENTRY_CLASSES, ns_arg

    u = impl.u
    rng = random.Random(o['seed'])
    fails = []
    counter = [rng.randrange(10**6) * 1000]
    s1 = _fresh_leaf_tree(parse(o['tree']), counter)
    s2 = _fresh_leaf_tree(parse(o['tree2']), counter)

    def purge():
        for k in [k for k in u.leaf_by_uid if k[1] >= 5 * 10**8]:
            x = u.leaf_by_uid.pop(k)
            u.leaf_by_id.pop(id(x), None)

    def fail(key, what, **kw):
        fails.append({'key': key, 'what': what, **kw})

    with in_cfg(impl, o['cfg']) as kw:
        tree, tree2 = u.obj(s1), u.obj(s2)
        try:
            leaves, spec = optree.tree_flatten(tree, **kw)
            leaves2, spec2 = optree.tree_flatten(tree2, **kw)
        except Exception:
            purge()
            return []
        ident = lambda x: x        # noqa: E731

        # ---- A. no operation mutates its operands -------------------------------------------------------
        def tsnap():
            return (render(u.enc_obj(tree)), _deep_ids(tree, []), render(u.enc_obj(tree2)), _deep_ids(tree2, []),
                    [id(x) for x in leaves], [id(x) for x in leaves2], _spec_snap(spec), _spec_snap(spec2))
        specs_list = [spec, spec2]
        specs_dict = {'a': spec, 'b': spec2}
        ops = [
            ('tree_flatten', lambda: optree.tree_flatten(tree, **kw)),
            ('tree_flatten_with_path', lambda: optree.tree_flatten_with_path(tree, **kw)),
            ('tree_flatten_with_accessor', lambda: optree.tree_flatten_with_accessor(tree, **kw)),
            ('tree_iter', lambda: list(optree.tree_iter(tree, **kw))),
            ('tree_leaves', lambda: optree.tree_leaves(tree, **kw)),
            ('tree_structure', lambda: optree.tree_structure(tree, **kw)),
            ('tree_paths', lambda: optree.tree_paths(tree, **kw)),
            ('tree_accessors', lambda: optree.tree_accessors(tree, **kw)),
            ('tree_is_leaf', lambda: optree.tree_is_leaf(tree, **kw)),
            ('all_leaves', lambda: optree.all_leaves(leaves, **kw)),
            ('tree_map', lambda: optree.tree_map(ident, tree, **kw)),
            ('tree_map2', lambda: optree.tree_map(lambda a, b: a, tree, tree2, **kw)),
            ('tree_map_', lambda: optree.tree_map_(ident, tree, **kw)),
            ('tree_map_with_path', lambda: optree.tree_map_with_path(lambda p, x: x, tree, **kw)),
            ('tree_map_with_accessor', lambda: optree.tree_map_with_accessor(lambda a, x: x, tree, **kw)),
            ('tree_replace_nones', lambda: optree.tree_replace_nones(0, tree, namespace=kw['namespace'])),
            ('tree_reduce', lambda: optree.tree_reduce(lambda a, b: a, tree, **kw)),
            ('tree_all', lambda: optree.tree_all(tree, **kw)),
            ('tree_flatten_one_level', lambda: optree.tree_flatten_one_level(tree, none_is_leaf=kw['none_is_leaf'],
                                                                             namespace=kw['namespace'])),
            ('tree_broadcast_prefix', lambda: optree.tree_broadcast_prefix(tree, tree2, **kw)),
            ('broadcast_prefix', lambda: optree.broadcast_prefix(tree, tree2, **kw)),
            ('tree_broadcast_common', lambda: optree.tree_broadcast_common(tree, tree2, **kw)),
            ('broadcast_common', lambda: optree.broadcast_common(tree, tree2, **kw)),
            ('tree_broadcast_map', lambda: optree.tree_broadcast_map(lambda a, b: a, tree, tree2, **kw)),
            ('prefix_errors', lambda: optree.prefix_errors(tree, tree2, **kw)),
            ('prefix_errors_r', lambda: optree.prefix_errors(tree2, tree, **kw)),
            ('tree_transpose_map', lambda: optree.tree_transpose_map(lambda x: (x, x), tree, **kw)),
            ('tree_unflatten', lambda: optree.tree_unflatten(spec, leaves)),
            ('tree_unflatten_wrong', lambda: optree.tree_unflatten(spec, leaves2)),
            ('unflatten_iter', lambda: spec.unflatten(iter(leaves))),
            ('flatten_up_to', lambda: spec.flatten_up_to(tree2)),
            ('flatten_up_to_r', lambda: spec2.flatten_up_to(tree)),
            ('compose', lambda: spec.compose(spec2)),
            ('compose_r', lambda: spec2.compose(spec)),
            ('transform', lambda: spec.transform(ident, ident)),
            ('transform_fn', lambda: spec.transform(lambda s: optree.treespec_tuple([s, s], none_is_leaf=s.none_is_leaf,
                                                                                   namespace=s.namespace))),
            ('broadcast_to_common_suffix', lambda: spec.broadcast_to_common_suffix(spec2)),
            ('broadcast_to_common_suffix_r', lambda: spec2.broadcast_to_common_suffix(spec)),
            ('is_prefix', lambda: (spec.is_prefix(spec2), spec2.is_prefix(spec), spec.is_suffix(spec2))),
            ('compare', lambda: (spec == spec2, spec != spec2, spec <= spec2, spec < spec2, spec >= spec2, spec > spec2)),
            ('hash', lambda: (hash(spec), hash(spec2))),
            ('repr', lambda: (repr(spec), str(spec2))),
            ('pickle', lambda: pickle.loads(pickle.dumps(spec))),
            ('copy', lambda: (copy.copy(spec), copy.deepcopy(spec2))),
            ('inspect', lambda: (spec.entries(), spec.children(), spec.paths(), spec.accessors(), spec.one_level(),
                                 spec.is_leaf(), spec.kind, spec.type, [spec.entry(i) for i in range(spec.num_children)],
                                 [spec.child(i) for i in range(spec.num_children)])),
            ('walk', lambda: spec.walk(leaves, lambda ty, md, ch: ch, ident) if hasattr(spec, 'walk') else None),
            ('traverse', lambda: spec.traverse(leaves, ident, ident) if hasattr(spec, 'traverse') else None),
            ('treespec_tuple', lambda: optree.treespec_tuple(specs_list, none_is_leaf=kw['none_is_leaf'],
                                                             namespace=kw['namespace'])),
            ('treespec_list', lambda: optree.treespec_list(specs_list, none_is_leaf=kw['none_is_leaf'],
                                                           namespace=kw['namespace'])),
            ('treespec_dict', lambda: optree.treespec_dict(specs_dict, none_is_leaf=kw['none_is_leaf'],
                                                           namespace=kw['namespace'])),
            ('treespec_from_collection', lambda: optree.treespec_from_collection(
                [spec, {'k': spec2}], none_is_leaf=kw['none_is_leaf'], namespace=kw['namespace'])),
        ]
        before = tsnap()
        with warnings.catch_warnings():
            warnings.simplefilter('ignore')
            for name, f in ops:
                try:
                    f()
                except Exception:      # noqa: BLE001  errors are fine here, mutation is not
                    pass
                after = tsnap()
                if after != before or len(specs_list) != 2 or len(specs_dict) != 2:
                    which = [n for n, a, b in zip(('tree', 'tree-ids', 'tree2', 'tree2-ids', 'leaves', 'leaves2', 'spec', 'spec2'),
                                                  before, after) if a != b]
                    fail(f'operand-mutated-{name}', f'{name} changed its operands: {which}',
                         before=str([b for n, b in zip(range(8), before) if before[n] != after[n]])[:600],
                         after=str([a for n, a in zip(range(8), after) if before[n] != after[n]])[:600])
                    before = after

        # ---- B. every hand-out is fresh ---------------------------------------------------------------
        snap0 = _spec_snap(spec)
        handouts = {
            'entries': spec.entries, 'children': spec.children, 'paths': spec.paths, 'accessors': spec.accessors,
            'leaves': lambda: optree.tree_flatten(tree, **kw)[0],
            'tree_leaves': lambda: optree.tree_leaves(tree, **kw),
            'tree_paths': lambda: optree.tree_paths(tree, **kw),
            'tree_accessors': lambda: optree.tree_accessors(tree, **kw),
            'flatten_up_to': lambda: spec.flatten_up_to(tree),
            'flatten_with_path_paths': lambda: optree.tree_flatten_with_path(tree, **kw)[0],
            'flatten_with_path_leaves': lambda: optree.tree_flatten_with_path(tree, **kw)[1],
            'one_level_entries': lambda: spec.one_level().entries() if spec.one_level() is not None else [],
            'child_entries': lambda: spec.child(0).entries() if spec.num_children else [],
            'flatten_one_level_children': lambda: optree.tree_flatten_one_level(
                tree, none_is_leaf=kw['none_is_leaf'], namespace=kw['namespace'])[0] if not spec.is_leaf() else [],
            'flatten_one_level_entries': lambda: list(optree.tree_flatten_one_level(
                tree, none_is_leaf=kw['none_is_leaf'], namespace=kw['namespace'])[2]) if not spec.is_leaf() else [],
        }
        tree_enc = render(u.enc_obj(tree))
        for name, f in handouts.items():
            try:
                r1 = f()
                r1_repr = repr(r1)
                r2 = f()
            except Exception:       # noqa: BLE001
                continue
            if isinstance(r1, list) and r1 is r2:
                fail(f'handout-same-object-{name}', f'{name} returned the same list object twice')
            if isinstance(r1, list):
                for mut in (lambda l: l.append('junk'), lambda l: l.reverse(), lambda l: l.clear()):
                    mut(r1)
                    try:
                        again = repr(f())
                    except Exception as e:  # noqa: BLE001
                        again = f'raised {type(e).__name__}'
                    if again != r1_repr or _spec_snap(spec) != snap0 or render(u.enc_obj(tree)) != tree_enc:
                        fail(f'handout-aliased-{name}', f'mutating the list returned by {name} changed a later observation',
                             first=r1_repr[:300], later=again[:300])
                        break
            del r1, r2

        # ---- C/D/E. the treespec outlives its source ------------------------------------------------------
        fresh = [Lf(10**7 + i) for i in range(spec.num_leaves)]
        try:
            want = render(u.enc_obj(optree.tree_unflatten(spec, fresh)))
        except Exception:       # noqa: BLE001
            want = None
        leaf_refs = [weakref.ref(x) for x in leaves if type(x) is Lf]
        leaf_counts = None
        used = []          # registrations of the standard registry the spec mentions
        for node in spec.__getstate__()[0]:
            if node[0] == 0 and node[4] is not None:
                for rns, ck, c, ek, mode in STD_REGISTRY:
                    if class_of(ck, c) is node[4] and rns in ('', kw['namespace']) and (rns, ck, c, ek, mode) not in used:
                        used.append((rns, ck, c, ek, mode))
        actions = ['mutate-source', 'mutate-handouts', 'gc', 'delete', 'gc']
        if used:
            actions += ['unregister', 'reregister-different']
        rng.shuffle(actions)
        snap0 = _spec_snap(spec)
        # after an unregistration, accessors()/repr still work (the node keeps its registration)
        registry_dirty = []

        def observe(after):
            try:
                now = _spec_snap(spec)
            except Exception as e:      # noqa: BLE001
                fail(f'spec-broken-after-{after}', f'inspecting the treespec after {after} raised {type(e).__name__}: {e}')
                return
            if now != snap0:
                diff = [i for i, (a, b) in enumerate(zip(snap0, now)) if a != b]
                fail(f'spec-changed-after-{after}', f'the treespec changed after {after} (snapshot fields {diff})',
                     before=str([snap0[i] for i in diff])[:500], after=str([now[i] for i in diff])[:500])
            if want is not None:
                try:
                    got = render(u.enc_obj(optree.tree_unflatten(spec, fresh)))
                except Exception as e:      # noqa: BLE001
                    fail(f'unflatten-broken-after-{after}', f'unflatten after {after} raised {type(e).__name__}: {e}')
                    return
                if got != want:
                    fail(f'unflatten-changed-after-{after}', f'unflatten builds a different tree after {after}',
                         expected=want[:400], got=got[:400])
        try:
            with warnings.catch_warnings():
                warnings.simplefilter('ignore')
                for act in actions:
                    if act == 'mutate-source':
                        if tree is None:
                            continue
                        for cont in _containers(tree, []):
                            _mutate_container(cont, rng, Lf)
                        cont = None
                    elif act == 'mutate-handouts':
                        for h in (spec.entries(), spec.children(), spec.paths(), spec.accessors()):
                            h.append('junk')
                            h.reverse()
                            del h[:1]
                    elif act == 'gc':
                        gc.collect()
                    elif act == 'delete':
                        tree = tree2 = leaves = leaves2 = None
                        purge()
                        gc.collect()
                        alive = [r for r in leaf_refs if r() is not None]
                        if alive:
                            holders = [type(h).__name__ for h in gc.get_referrers(alive[0]())][:5]
                            fail('spec-holds-leaf', f'{len(alive)} of {len(leaf_refs)} leaves are still alive after the tree '
                                 f'and the leaves list were deleted (referrers: {holders})')
                    elif act == 'unregister':
                        for rns, ck, c, ek, mode in used:
                            if (rns, ck, c) not in [(a, b, d) for a, b, d, _, _ in registry_dirty]:
                                optree.unregister_pytree_node(class_of(ck, c), namespace=ns_arg(rns))
                                registry_dirty.append((rns, ck, c, ek, mode))
                    elif act == 'reregister-different':
                        for rns, ck, c, ek, mode in used:
                            cls = class_of(ck, c)
                            if (rns, ck, c) not in [(a, b, d) for a, b, d, _, _ in registry_dirty]:
                                optree.unregister_pytree_node(cls, namespace=ns_arg(rns))
                                registry_dirty.append((rns, ck, c, ek, mode))
                            optree.register_pytree_node(
                                cls, lambda obj: ((), 'other-registration', ()), lambda md, ch: ('rebuilt-by-other', md),
                                namespace=ns_arg(rns))
                            optree.unregister_pytree_node(cls, namespace=ns_arg(rns))
                    observe(act)
        finally:
            with warnings.catch_warnings():
                warnings.simplefilter('ignore')
                for rns, ck, c, ek, mode in registry_dirty:
                    cls = class_of(ck, c)
                    optree.register_pytree_node(cls, make_flatten(ck, mode), make_unflatten(ck, cls),
                                                path_entry_type=ENTRY_CLASSES[ek], namespace=ns_arg(rns))
            purge()
    return fails
