"""C03  All traversal entry points agree with each other."""

from __future__ import annotations

import functools

from sexp import A, Atom, parse, render
from props.common import has_internal_node, in_cfg, op, tree_distribution

RULE = ('random pytrees incl. malformed custom nodes (wrong tuple size, entries/children mismatch) and chains of '
        'depth limit-1 / limit / limit+1 for every node kind; distinct by request text; non-trivial = internal node or error')
IMPL_TIMEOUT = 3000


def _generate_model_cases(gen, tier):
    n = 300 if tier == 'quick' else 9000
    cases = []
    for i in range(n):
        quirks = gen.rng.random() < 0.35
        t = gen.tree(depth=gen.rng.choice([2, 3, 3, 4]), width=gen.rng.choice([3, 4]), quirks=quirks,
                     weights=[2, 2, 2, 1, 1, 1, 1, 1, 5 if quirks else 2, 1, 2])
        if gen.rng.random() < 0.25:
            t = gen.with_leafless(t, 0.4)
        cfg = gen.cfg()
        cases.append(mk_case(cfg, t))
    # all_leaves over sequences that mix, within one type, instances the predicate accepts and instances it does not
    # (predicates 2 and 6 depend on the value: dicts with >= 2 items, empty lists), in every order
    rng = gen.rng

    def pool():
        lf = lambda: gen.leaf(0)     # noqa: E731
        return [lf(), A('N'), [A('T'), lf()], [A('l')], [A('l'), lf()],
                [A('D'), [[A('s'), 'a'], lf()], [[A('s'), 'b'], lf()]], [A('D'), [[A('s'), 'a'], lf()]],
                [A('O'), [[A('s'), 'a'], lf()], [[A('s'), 'b'], lf()]], [A('O'), [[A('s'), 'a'], lf()]], [A('D')]]
    n_pool = len(pool())
    for pred in (2, 6, 1, 3):
        for i in range(n_pool):
            for j in range(n_pool):
                if tier == 'quick' and pred in (1, 3) and rng.random() < 0.7:
                    continue
                pl = pool()
                elems = [pl[i], pool()[j]]
                if rng.random() < 0.3:
                    elems.insert(rng.randrange(3), pool()[rng.randrange(n_pool)])
                cfg = gen.cfg(pred=pred, ns='', ordered=[])
                lines = [op('all_leaves', cfg, elems), op('all_leaves', cfg, list(reversed(elems))),
                         op('all_leaves', cfg, elems + elems)]
                cases.append({'lines': lines, 'o': {'cfg': render(cfg), 'tree': render([A(rng.choice(['l', 'T'])), *elems])}})
    # dict / defaultdict nodes whose keys cannot be sorted at all (the traversals must agree on the fallback order too)
    for _ in range(40 if tier == 'quick' else 1500):
        t = gen.tree(depth=gen.rng.choice([1, 2, 3]), width=gen.rng.choice([2, 3, 4]), key_style='unsortable',
                     weights=[1, 1, 6, 1, 4, 1, 1, 0, 1, 1, 2])
        cases.append(mk_case(gen.cfg(pred=gen.rng.choice([0, 0, 0, 2])), t))
    # depth chains around the limit
    kinds = ['T', 'l', 'D', 'O', 'DD', 'Q', 'NT', 'U']
    depths = [999, 1000, 1001] if tier == 'quick' else [998, 999, 1000, 1001, 1002, 1500]
    for k in (kinds if tier == 'thorough' else kinds[:: 1]):
        for d in depths:
            if tier == 'quick' and k not in ('T', 'D', 'U', 'Q') and d != 1001:
                continue
            t = gen.chain(k, d)
            cases.append(mk_case(gen.cfg(ns='', pred=0, nil=False, ordered=[]), t, heavy=True))
    # over-deep by one with a predicate that accepts the object at the deepest level
    for k in ('l', 'T', 'D', 'U'):
        for d in (1000, 1001, 1002):
            for pred, bottom in ((1, [A('T'), gen.leaf(0)]), (5, [A('L'), 0, 2 * gen.fresh_uid()]), (3, A('N')),
                                 (6, [A('l')]), (2, [A('D'), [[A('s'), 'a'], gen.leaf(0)], [[A('s'), 'b'], gen.leaf(0)]])):
                if tier == 'quick' and (k in ('T', 'D') and d != 1001):
                    continue
                t = gen.chain(k, d, bottom=bottom)
                for nil in (False, True):
                    cases.append(mk_case(gen.cfg(ns='', pred=pred, nil=nil, ordered=[]), t, heavy=True))
    # malformed node whose extra child is over-deep (the entries check and the depth check race)
    deep = gen.chain('l', 1001)
    for q in ('ent-', 'ent+'):
        t = [A('U'), 1, A('N'), A(q), gen.leaf(0), deep]
        cases.append(mk_case(gen.cfg(ns='', pred=0, nil=False, ordered=[]), t, heavy=True))
    return cases


def mk_case(cfg, t, heavy=False):
    lines = [op('flatten', cfg, t), op('flatten_with_path', cfg, t), op('iter', cfg, t),
             op('is_leaf', cfg, t)]
    if not heavy:
        lines += [op('paths', [A('structure'), cfg, t]), op('accessors', [A('structure'), cfg, t])]
        if not isinstance(t, Atom) and t[0] in ('T', 'l'):
            lines.append(op('all_leaves', cfg, list(t[1:])))
    return {'lines': lines, 'o': {'cfg': render(cfg), 'tree': render(t)}}


def generate(gen, tier):
    cases = _generate_model_cases(gen, tier)
    # order-free stream: key sets outside the model's key universe (props/exotic.py); oracle only, no model lines
    n = 150 if tier == 'quick' else 3750
    for _ in range(n):
        cases.append({'lines': [], 'o': {'exotic': gen.rng.randrange(10**9)}})
    cases.append({'lines': [], 'o': {'exotic': 0, 'aliases': 1}})
    return cases


def nontrivial(case):
    if 'exotic' in case['o']:
        return True
    return has_internal_node(parse(case['o']['tree']))


def distribution(cases):
    n_exotic = sum(1 for c in cases if 'exotic' in c['o'])
    cases = [c for c in cases if 'exotic' not in c['o']]
    d0 = _distribution(cases)
    d0['exotic_key_cases'] = n_exotic
    return d0


def _distribution(cases):
    return tree_distribution(cases)


def _aliases():
    """the alias namespaces optree.pytree / optree.treespec name the very functions of the top-level API"""
    import optree
    import optree.pytree as pt
    import optree.treespec as ts
    fails = []
    special = {'register_node': 'register_pytree_node', 'register_node_class': 'register_pytree_node_class',
               'unregister_node': 'unregister_pytree_node', 'dict_insertion_ordered': 'dict_insertion_ordered'}
    for name in pt.__all__:
        target = special.get(name, 'tree_' + name)
        if not hasattr(optree, target) or getattr(pt, name) is not getattr(optree, target):
            fails.append({'key': 'alias-pytree', 'what': f'optree.pytree.{name} is not optree.{target}'})
    for name in ts.__all__:
        target = 'treespec_' + name
        if not hasattr(optree, target) or getattr(ts, name) is not getattr(optree, target):
            fails.append({'key': 'alias-treespec', 'what': f'optree.treespec.{name} is not optree.{target}'})
    for name in optree.__all__:
        if not hasattr(optree, name):
            fails.append({'key': 'alias-missing', 'what': f'optree.__all__ lists {name} which is not defined'})
    return fails


def outcome(f):
    try:
        return ('ok', f())
    except BaseException as e:  # noqa: BLE001
        if isinstance(e, (KeyboardInterrupt, SystemExit)):
            raise
        return ('err', type(e).__name__)


def same(a, b):
    return len(a) == len(b) and all(x is y for x, y in zip(a, b))


def oracle(impl, o):
    if 'aliases' in o:
        return _aliases()
    if 'exotic' in o:
        import optree as _optree
        from props import exotic
        return exotic.check_C03(_optree, o['exotic'])
    import optree
    u = impl.u
    fails = []
    tree = u.obj(parse(o['tree']))
    with in_cfg(impl, o['cfg']) as kw:
        res = {
            'tree_flatten': outcome(lambda: optree.tree_flatten(tree, **kw)),
            'tree_flatten_with_path': outcome(lambda: optree.tree_flatten_with_path(tree, **kw)),
            'tree_flatten_with_accessor': outcome(lambda: optree.tree_flatten_with_accessor(tree, **kw)),
            'tree_leaves': outcome(lambda: optree.tree_leaves(tree, **kw)),
            'tree_iter': outcome(lambda: list(optree.tree_iter(tree, **kw))),
            'tree_structure': outcome(lambda: optree.tree_structure(tree, **kw)),
            'tree_paths': outcome(lambda: optree.tree_paths(tree, **kw)),
            'tree_accessors': outcome(lambda: optree.tree_accessors(tree, **kw)),
        }
        errs = {k: v[1] for k, v in res.items() if v[0] == 'err'}
        if errs:
            if len(errs) != len(res) or len(set(errs.values())) != 1:
                kinds = sorted(set(errs.values()))
                key = 'error-parity'
                if set(errs.values()) <= {'RecursionError', 'RuntimeError'} and len(errs) == len(res):
                    key = 'error-parity-malformed-custom-vs-depth'
                fails.append({'key': key, 'what': 'traversals disagree on raising / exception type',
                              'outcomes': {k: (v[1] if v[0] == 'err' else 'ok') for k, v in res.items()},
                              'kinds': kinds})
            return fails
        leaves, spec = res['tree_flatten'][1]
        paths_w, leaves_w, spec_w = res['tree_flatten_with_path'][1]
        accs_a, leaves_a, spec_a = res['tree_flatten_with_accessor'][1]
        for name, ls in (('tree_flatten_with_path', leaves_w), ('tree_flatten_with_accessor', leaves_a),
                         ('tree_leaves', res['tree_leaves'][1]), ('tree_iter', res['tree_iter'][1])):
            if not same(leaves, ls):
                fails.append({'key': f'leaves-{name}', 'what': f'{name} returns different leaves than tree_flatten'})
        for name, sp in (('tree_flatten_with_path', spec_w), ('tree_flatten_with_accessor', spec_a),
                         ('tree_structure', res['tree_structure'][1])):
            if not (sp == spec) or hash(sp) != hash(spec) or repr(sp) != repr(spec) \
                    or render(u.enc_spec(sp)) != render(u.enc_spec(spec)):
                fails.append({'key': f'spec-{name}', 'what': f'{name} returns a different treespec than tree_flatten'})
        paths = res['tree_paths'][1]
        accs = res['tree_accessors'][1]
        if paths != paths_w or spec.paths() != paths:
            fails.append({'key': 'paths', 'what': 'paths from traversal and from the treespec differ',
                          'traversal': repr(paths_w)[:300], 'treespec': repr(spec.paths())[:300]})
        if accs != accs_a or spec.accessors() != accs or [a.path for a in accs] != paths:
            fails.append({'key': 'accessors', 'what': 'accessors from traversal / treespec / paths differ'})
        if not (len(paths) == len(accs) == len(leaves) == spec.num_leaves):
            fails.append({'key': 'counts', 'what': 'numbers of paths, accessors, leaves and num_leaves differ'})
        # tree_is_leaf / all_leaves
        is_leaf = optree.tree_is_leaf(tree, **kw)
        flat_leaf = len(leaves) == 1 and leaves[0] is tree and spec.is_leaf()
        if bool(is_leaf) != flat_leaf:
            fails.append({'key': 'is-leaf', 'what': f'tree_is_leaf={is_leaf} but flatten yields [x], leaf spec = {flat_leaf}'})
        if type(tree) in (tuple, list):
            al = optree.all_leaves(tree, **kw)
            want = all(optree.tree_is_leaf(x, **kw) for x in tree)
            if bool(al) != want:
                fails.append({'key': 'all-leaves', 'what': 'all_leaves differs from every element being a leaf'})
        # reductions = python folds over tree_leaves
        marks = [id(x) for x in leaves]
        if leaves:
            r = optree.tree_reduce(lambda a, b: a + [id(b)], tree, [], **kw)
            if r != marks:
                fails.append({'key': 'reduce', 'what': 'tree_reduce differs from functools.reduce over tree_leaves'})
        ints = optree.tree_map(lambda x: (id(x) % 1009) - 300, tree, **kw)
        il = optree.tree_leaves(ints, **{**kw, 'is_leaf': None})
        kw_i = {**kw, 'is_leaf': None}
        if all(type(v) is int for v in il):
            if optree.tree_sum(ints, **kw_i) != sum(il):
                fails.append({'key': 'sum', 'what': 'tree_sum differs from sum(tree_leaves)'})
            if il:
                if optree.tree_max(ints, **kw_i) != max(il) or optree.tree_min(ints, **kw_i) != min(il):
                    fails.append({'key': 'maxmin', 'what': 'tree_max/min differ from max/min(tree_leaves)'})
            if optree.tree_all(ints, **kw_i) != all(il) or optree.tree_any(ints, **kw_i) != any(il):
                fails.append({'key': 'allany', 'what': 'tree_all/any differ from all/any(tree_leaves)'})
            # every optional argument of the reductions, against the Python fold with the same arguments
            # (same value, or an exception of the same type)
            import functools
            import operator
            lo, hi = (min(il) - 5, max(il) + 5) if il else (-1, 1)
            mid = il[len(il) // 2] if il else 0
            neg = operator.neg
            menu = []
            for d in (lo, hi, mid, None, 'x'):
                for key in (None, neg):
                    kws = {} if key is None else {'key': key}
                    menu.append((f'tree_max(default={d!r}, key={"neg" if key else None})',
                                 lambda d=d, kws=kws: optree.tree_max(ints, default=d, **kws, **kw_i),
                                 lambda d=d, kws=kws: max(il, default=d, **kws)))
                    menu.append((f'tree_min(default={d!r}, key={"neg" if key else None})',
                                 lambda d=d, kws=kws: optree.tree_min(ints, default=d, **kws, **kw_i),
                                 lambda d=d, kws=kws: min(il, default=d, **kws)))
            for key in (None, neg):
                kws = {} if key is None else {'key': key}
                menu.append((f'tree_max(key={"neg" if key else None})', lambda kws=kws: optree.tree_max(ints, **kws, **kw_i), lambda kws=kws: max(il, **kws)))
                menu.append((f'tree_min(key={"neg" if key else None})', lambda kws=kws: optree.tree_min(ints, **kws, **kw_i), lambda kws=kws: min(il, **kws)))
            for st in (0, 7, -3, 2.5):
                menu.append((f'tree_sum(start={st!r})', lambda st=st: optree.tree_sum(ints, st, **kw_i), lambda st=st: sum(il, st)))
            sub = lambda a, b: a * 3 - b                       # noqa: E731  (order-sensitive, not associative)
            menu.append(('tree_reduce(f)', lambda: optree.tree_reduce(sub, ints, **kw_i), lambda: functools.reduce(sub, il)))
            for init in (0, 11, -2):
                menu.append((f'tree_reduce(f, initial={init})', lambda init=init: optree.tree_reduce(sub, ints, init, **kw_i),
                             lambda init=init: functools.reduce(sub, il, init)))
            for name, got_f, want_f in menu:
                got, want = outcome(got_f), outcome(want_f)
                if got[0] != want[0] or (got[0] == 'ok' and (got[1] != want[1] or type(got[1]) is not type(want[1]))) \
                        or (got[0] == 'err' and got[1] != want[1]):
                    fails.append({'key': 'reduction-' + name.split('(')[0], 'what': f'{name} differs from the Python fold over tree_leaves',
                                  'got': repr(got)[:120], 'want': repr(want)[:120], 'leaves': repr(il)[:200]})
                    break
    return fails
