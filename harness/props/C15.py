"""C15  A failing user callback fails the operation cleanly."""

from __future__ import annotations

from sexp import A, Atom, parse, render
from gen import map_children, relabel_leaves, substitute_leaves, vary_dicts
from props.common import has_internal_node, in_cfg, op, tree_distribution

RULE = ('random pytrees with custom nodes, object keys (hooked __hash__/__eq__/__lt__/__repr__), object metadata and predicates; '
        'correspondence: flatten with a fault at every callback index k = 0..K+1 and no fault; oracle: for each of ~45 public '
        'operations taking or reaching user code, the fault-free run counts K callback invocations, then every k < K is run '
        'with a fault injected at invocation k (exhaustive, single fault per run); malformed flatten returns (quirks) through '
        'every operation; distinct by request text; non-trivial = the fault-free run of some operation makes >= 2 callbacks')
TRANSLATORS = ['swallow']
EXTRA_TRUST = ['reference counts and partially built C++ objects are not modelled: sys.getrefcount before/after each faulty run '
               'on the implementation',
               'callback granularity of the Lean program: is_leaf and registered flatten functions; key comparison / hashing, '
               'unflatten functions and mapped functions are enumerated on the implementation only']
IMPL_TIMEOUT = 6000


def _count_nodes(s):
    if isinstance(s, Atom) or s[0] == 'L':
        return 1
    n = [1]

    def f(c):
        n[0] += _count_nodes(c)
        return c
    map_children(s, f)
    return n[0]


def _object_md(gen, s, p=0.5):
    """give some custom nodes a key object as metadata (its __eq__ is user code)"""
    if isinstance(s, Atom) or s[0] == 'L':
        return s
    s = map_children(s, lambda c: _object_md(gen, c, p))
    if s[0] == 'U' and gen.rng.random() < p:
        s = list(s)
        s[2] = gen.key_obj('vk.KU', False)
    return s


def generate(gen, tier):
    rng = gen.rng
    cases = []
    n = 28 if tier == 'quick' else 600
    for i in range(n):
        depth = rng.choice([2, 3, 3, 4])
        style = rng.choice(['ord', 'ord2', 'unord1', 'all', None])
        t = gen.tree(depth=depth, width=rng.choice([2, 3, 4]), key_style=style,
                     weights=[3, 3, 3, 2, 2, 1, 2, 1, 5, 1, 2])
        t = _object_md(gen, t)
        cfg = gen.cfg(pred=rng.choice([0, 1, 2, 4, 5, 6]) if rng.random() < 0.7 else 0)
        t2 = vary_dicts(gen, relabel_leaves(gen, t), p_kind=0.0, p_maxlen=0.0) if rng.random() < 0.7 else substitute_leaves(gen, t)
        k_ub = 2 * _count_nodes(t) + 2
        ks = list(range(k_ub)) if k_ub <= 40 else sorted(rng.sample(range(k_ub), 40))
        lines = [op('faultflatten', A('N'), cfg, t)] + [op('faultflatten', k, cfg, t) for k in ks]
        cases.append({'lines': lines, 'o': {'kind': 'faults', 'cfg': render(cfg), 'tree': render(t), 'tree2': render(t2)}})
    for i in range(30 if tier == 'quick' else 500):
        t = gen.tree(depth=rng.choice([2, 3, 4]), width=3, quirks=True, weights=[2, 2, 2, 1, 1, 1, 1, 1, 8, 1, 2])
        cfg = gen.cfg()
        cases.append({'lines': [op('faultflatten', A('N'), cfg, t)],
                      'o': {'kind': 'malformed', 'cfg': render(cfg), 'tree': render(t)}})
    return cases


def nontrivial(case):
    return has_internal_node(parse(case['o']['tree']))


def distribution(cases):
    d = tree_distribution(cases)
    d['case_kinds'] = {}
    for c in cases:
        d['case_kinds'][c['o']['kind']] = d['case_kinds'].get(c['o']['kind'], 0) + 1
    d['fault_lines'] = sum(len(c['lines']) for c in cases)
    return d


# ------------------------------------------------------------------------------------ implementation oracle

def _operations(optree, ctx):
    """name -> thunk; every callable handed to optree goes through ctx.hook"""
    import copy
    import pickle
    tree, tree2, kw = ctx['tree'], ctx['tree2'], ctx['kw']
    spec, spec2, leaves = ctx['spec'], ctx['spec2'], ctx['leaves']
    hook = ctx['hook']
    nil, ns = kw['none_is_leaf'], kw['namespace']

    def f1(x, *rest):
        hook('fn', x)
        return x

    def fpath(p, x, *rest):
        hook('fn', x)
        return x

    def fpair(x):
        hook('fn', x)
        return (x, x)

    def fnode(ch):
        hook('f_node', ch)
        return ch

    def fred(a, b):
        hook('fn', a)
        return a
    ops = {
        'tree_flatten': lambda: optree.tree_flatten(tree, **kw),
        'tree_flatten_with_path': lambda: optree.tree_flatten_with_path(tree, **kw),
        'tree_flatten_with_accessor': lambda: optree.tree_flatten_with_accessor(tree, **kw),
        'tree_iter': lambda: list(optree.tree_iter(tree, **kw)),
        'tree_leaves': lambda: optree.tree_leaves(tree, **kw),
        'tree_structure': lambda: optree.tree_structure(tree, **kw),
        'tree_paths': lambda: optree.tree_paths(tree, **kw),
        'tree_accessors': lambda: optree.tree_accessors(tree, **kw),
        'tree_is_leaf': lambda: optree.tree_is_leaf(tree, **kw),
        'all_leaves': lambda: optree.all_leaves(leaves, **kw),
        'tree_map': lambda: optree.tree_map(f1, tree, **kw),
        'tree_map2': lambda: optree.tree_map(f1, tree, tree2, **kw),
        'tree_map_': lambda: optree.tree_map_(f1, tree, **kw),
        'tree_map_with_path': lambda: optree.tree_map_with_path(fpath, tree, **kw),
        'tree_map_with_accessor': lambda: optree.tree_map_with_accessor(fpath, tree, tree2, **kw),
        'tree_replace_nones': lambda: optree.tree_replace_nones(0, tree, namespace=ns),
        'tree_reduce': lambda: optree.tree_reduce(fred, tree, **kw),
        'tree_transpose_map': lambda: optree.tree_transpose_map(fpair, tree, **kw),
        'tree_broadcast_prefix': lambda: optree.tree_broadcast_prefix(tree, tree2, **kw),
        'tree_broadcast_common': lambda: optree.tree_broadcast_common(tree, tree2, **kw),
        'tree_broadcast_map': lambda: optree.tree_broadcast_map(f1, tree, tree2, **kw),
        'prefix_errors': lambda: optree.prefix_errors(tree, tree2, **kw),
        'tree_flatten_one_level': lambda: optree.tree_flatten_one_level(tree, none_is_leaf=nil, namespace=ns),
        'tree_unflatten': lambda: optree.tree_unflatten(spec, leaves),
        'flatten_up_to': lambda: spec.flatten_up_to(tree2),
        'spec_eq': lambda: (spec == spec2, spec != spec2),
        'spec_order': lambda: (spec <= spec2, spec2 >= spec, spec < spec2),
        'is_prefix': lambda: (spec.is_prefix(spec2), spec2.is_suffix(spec)),
        'spec_hash': lambda: hash(spec),
        'spec_repr': lambda: repr(spec),
        'spec_pickle': lambda: pickle.loads(pickle.dumps(spec)),
        'spec_copy': lambda: copy.deepcopy(spec),
        'compose': lambda: spec.compose(spec2),
        'transform': lambda: spec.transform(lambda s: (hook('f_node', s), s)[1], lambda s: (hook('f_leaf', s), s)[1]),
        'broadcast_to_common_suffix': lambda: spec.broadcast_to_common_suffix(spec2),
        'traverse': lambda: spec.traverse(leaves, fnode, f1),
        'walk': lambda: spec.walk(leaves, lambda ty, md, ch: fnode(ch), f1),
        'entries_paths_accessors': lambda: (spec.entries(), spec.paths(), spec.accessors(), spec.children()),
        'treespec_from_collection': lambda: optree.treespec_from_collection(tree, none_is_leaf=nil, namespace=ns),
        'tree_partition': (lambda: optree.tree_partition(lambda x: (hook('fn', x), True)[1], tree, **kw))
        if hasattr(optree, 'tree_partition') else None,
        'tree_all': lambda: optree.tree_all(tree, **kw),
        'tree_max_key': lambda: optree.tree_max(tree, key=lambda x: (hook('fn', x), 0)[1], default=None, **kw),
    }
    return {k: v for k, v in ops.items() if v is not None}


def _watch_list(ctx):
    """objects whose reference counts must be the same before and after a failed call"""
    from collections import deque
    from universe import KeyBase, UBase
    seen = {}

    def walk(x):
        if id(x) in seen or x is None or isinstance(x, (bool, int, str, float)):
            return
        seen[id(x)] = x
        if isinstance(x, (list, tuple, deque)):
            for c in x:
                walk(c)
        elif isinstance(x, dict):
            for k, v in x.items():
                walk(k)
                walk(v)
        elif isinstance(x, UBase):
            walk(x.md)
            walk(x.children)
    walk(ctx['tree'])
    walk(ctx['tree2'])
    objs = list(seen.values()) + [ctx['spec'], ctx['spec2'], ctx['leaves']]
    if ctx['kw'].get('is_leaf') is not None:
        objs.append(ctx['kw']['is_leaf'])
    return objs


def _enc_result(u, r):
    """a comparable rendering of whatever an operation returned"""
    import optree
    try:
        if isinstance(r, optree.PyTreeSpec):
            return 'S' + render(u.enc_spec(r))
        if isinstance(r, (tuple, list)):
            return type(r).__name__ + '[' + ','.join(_enc_result(u, x) for x in r) + ']'
        if isinstance(r, dict):
            return 'dict[' + ','.join(_enc_result(u, k) + ':' + _enc_result(u, v) for k, v in r.items()) + ']'
        e = u.enc_obj(r)
        return render(e)
    except Exception:  # noqa: BLE001
        return repr(r)[:200]


def oracle(impl, o):
    import gc
    import sys
    import warnings
    import optree
    import universe
    from universe import UserExc

    u = impl.u
    fails = []

    def fail(key, what, **kw):
        if not any(f['key'] == key for f in fails):
            fails.append({'key': key, 'what': what, **kw})

    with in_cfg(impl, o['cfg']) as kw0, warnings.catch_warnings():
        warnings.simplefilter('ignore')
        tree = u.obj(parse(o['tree']))
        if o['kind'] == 'malformed':
            return _malformed(impl, optree, tree, kw0, fails, fail)
        tree2 = u.obj(parse(o['tree2']))
        state = {'n': 0, 'k': None, 'exc': None}

        def hook(kind, obj):
            i = state['n']
            state['n'] += 1
            if state['k'] is not None and i == state['k']:
                state['fault_kind'] = kind
                cls = state['exc_cls']
                if cls is StopIteration and kind != 'fn':
                    cls = ValueError
                state['exc'] = cls(1000 + i) if cls is UserExc else cls(f'injected-{1000 + i}')
                raise state['exc']
        kw = dict(kw0)
        has_odict = '(O ' in o['tree'] or '(O ' in o['tree2']
        pred = kw0['is_leaf']
        if pred is not None:
            def wrapped(x):
                hook('pred', x)
                return pred(x)
            kw['is_leaf'] = wrapped
        try:
            leaves, spec = optree.tree_flatten(tree, **kw0)
            leaves2, spec2 = optree.tree_flatten(tree2, **kw0)
        except Exception:  # noqa: BLE001
            return []
        ctx = {'tree': tree, 'tree2': tree2, 'kw': kw, 'spec': spec, 'spec2': spec2, 'leaves': leaves, 'hook': hook}
        ops = _operations(optree, ctx)
        watch = _watch_list(ctx)
        tree_enc = (render(u.enc_obj(tree)), render(u.enc_obj(tree2)), render(u.enc_spec(spec)), render(u.enc_spec(spec2)))

        # the type of the injected exception varies with the fault position: a handler that is too broad, or a
        # protocol that gives one exception type a meaning (StopIteration for iterators, ValueError / KeyError / LookupError
        # used as control flow), swallows or replaces only some types
        # (StopIteration is injected into the *mapped functions* only: there optree decides how the function is called;
        # inside key hooks / predicates it would also end the harness's own loops and CPython's iterator protocol)
        exc_menu = [UserExc, ValueError, KeyError, RuntimeError, LookupError, AttributeError, IndexError, StopIteration]

        def make_exc(name, k, salt=0):
            if salt == 'stop':
                return StopIteration
            return exc_menu[(k + salt + sum(map(ord, name))) % len(exc_menu)]

        def run(name, k, salt=0):
            """returns ('ok', encoded) | ('raise', exception)"""
            state['n'], state['k'] = 0, k
            state['exc'] = None
            state['exc_cls'] = make_exc(name, k, salt) if k is not None else None
            universe.CALLBACK_HOOK = hook
            try:
                r = ops[name]()
            except BaseException as e:   # noqa: BLE001
                return ('raise', e)
            finally:
                universe.CALLBACK_HOOK = None
                state['k'] = None
            out = ('ok', _enc_result(u, r))
            del r
            return out

        def describe(res):
            return res[1] if res[0] == 'ok' else f'raised {type(res[1]).__name__}: {res[1]}'
        for name in ops:
            base = run(name, None)           # warm-up (fills caches), also the reference outcome
            K = state['n']
            base = (base[0], base[1] if base[0] == 'ok' else (type(base[1]).__name__, str(base[1])))
            again = run(name, None)
            again = (again[0], again[1] if again[0] == 'ok' else (type(again[1]).__name__, str(again[1])))
            if again != base or state['n'] != K:
                # not deterministic without any fault: nothing can be concluded for this operation
                continue
            if base[0] == 'raise' and base[1][0] in ('InternalError', 'SystemError'):
                fail(f'internal-error-{name}', f'{name} raised {base[1][0]} without any fault: {base[1][1][:200]}')
            plan = [(k, 0) for k in range(K)]
            if any(t in name for t in ('map', 'reduce', 'traverse', 'walk', 'transform', 'partition')):
                # operations with a mapped / visiting function: also StopIteration at every position (it only replaces
                # the injected exception where the failing callback is that function)
                plan += [(k, 'stop') for k in range(K)]
            if K <= 8:
                # few callbacks: also the other exception types at every position
                plan += [(k, salt) for k in range(K) for salt in (1, 2)]
            for k, salt in plan:
                gc.collect()
                before = [sys.getrefcount(x) for x in watch]
                res = run(name, k, salt)
                injected = state['exc']
                n_calls = state['n']
                if res[0] == 'ok':
                    fail(f'fault-swallowed-{name}', f'{name}: the {type(injected).__name__} raised by callback invocation {k} of {K} '
                         f'({state.get("fault_kind")}) did not propagate; the call returned {res[1][:200]}',
                         injected=type(injected).__name__, fault_kind=state.get('fault_kind'))
                else:
                    e = res[1]
                    # CPython's own OrderedDict iteration (odictobject.c: odictiter_iternext -> PyODict_GetItem)
                    # discards an exception raised by a key's __hash__ / __eq__ and raises KeyError(key) instead;
                    # optree's Python layer iterates OrderedDicts with .items(): not optree's doing
                    cpython_odict = (has_odict and state.get('fault_kind') in ('key-eq', 'key-hash')
                                     and type(e) is KeyError and e.args and isinstance(e.args[0], universe.KeyBase))
                    if e is not injected and not cpython_odict:
                        chained = e.__cause__ is injected or e.__context__ is injected
                        fail(f'fault-replaced-{name}', f'{name}: callback invocation {k} of {K} raised {type(injected).__name__}({1000 + k}) but '
                             f'the caller got {type(e).__name__}: {str(e)[:160]}' + (' (chained)' if chained else ''),
                             injected=type(injected).__name__, fault_kind=state.get('fault_kind'))
                    if n_calls != k + 1:
                        fail(f'callbacks-after-fault-{name}', f'{name}: {n_calls - k - 1} more callback invocation(s) after '
                             f'the failing one (index {k})')
                    e = None
                res = None
                state['exc'] = injected = None
                gc.collect()
                after = [sys.getrefcount(x) for x in watch]
                if after != before:
                    diffs = [(type(x).__name__, b, a) for x, b, a in zip(watch, before, after) if a != b][:5]
                    fail(f'refcount-{name}', f'{name}: reference counts changed after a fault at callback invocation {k} of {K}: '
                         f'{diffs} (type, before, after)')
                now = (render(u.enc_obj(tree)), render(u.enc_obj(tree2)), render(u.enc_spec(spec)), render(u.enc_spec(spec2)))
                if now != tree_enc:
                    fail(f'operand-changed-{name}', f'{name}: an operand changed after a fault at callback invocation {k} of {K}')
                    tree_enc = now
                redo = run(name, None)
                redo = (redo[0], redo[1] if redo[0] == 'ok' else (type(redo[1]).__name__, str(redo[1])))
                if redo != base or state['n'] != K:
                    fail(f'later-call-differs-{name}', f'{name}: after a fault at callback invocation {k} of {K} the same call '
                         f'behaves differently', expected=str(base)[:300], got=str(redo)[:300],
                         callbacks=f'{state["n"]} vs {K}')
    return fails


def _malformed(impl, optree, tree, kw, fails, fail):
    """malformed flatten returns: only the documented exception types, whatever the operation"""
    ident = lambda x: x     # noqa: E731
    calls = {
        'tree_flatten': lambda: optree.tree_flatten(tree, **kw),
        'tree_flatten_with_path': lambda: optree.tree_flatten_with_path(tree, **kw),
        'tree_flatten_with_accessor': lambda: optree.tree_flatten_with_accessor(tree, **kw),
        'tree_iter': lambda: list(optree.tree_iter(tree, **kw)),
        'tree_map': lambda: optree.tree_map(ident, tree, **kw),
        'tree_map2': lambda: optree.tree_map(lambda a, b: a, tree, tree, **kw),
        'tree_paths': lambda: optree.tree_paths(tree, **kw),
        'tree_accessors': lambda: optree.tree_accessors(tree, **kw),
        'tree_structure': lambda: optree.tree_structure(tree, **kw),
        'tree_broadcast_prefix': lambda: optree.tree_broadcast_prefix(tree, tree, **kw),
        'tree_broadcast_common': lambda: optree.tree_broadcast_common(tree, tree, **kw),
        'prefix_errors': lambda: optree.prefix_errors(tree, tree, **kw),
        'tree_flatten_one_level': lambda: optree.tree_flatten_one_level(tree, none_is_leaf=kw['none_is_leaf'],
                                                                        namespace=kw['namespace']),
        'tree_transpose_map': lambda: optree.tree_transpose_map(lambda x: (x, x), tree, **kw),
        'treespec_from_collection': lambda: optree.treespec_from_collection(tree, none_is_leaf=kw['none_is_leaf'],
                                                                            namespace=kw['namespace']),
    }
    for name, f in calls.items():
        try:
            f()
        except (RuntimeError, ValueError, TypeError, RecursionError) as e:
            if type(e).__name__ in ('InternalError',):
                fail(f'malformed-internal-{name}', f'{name}: malformed flatten return raised InternalError: {str(e)[:200]}')
        except Exception as e:  # noqa: BLE001
            from universe import UserExc
            if not isinstance(e, UserExc):
                fail(f'malformed-exception-{name}', f'{name}: malformed flatten return raised {type(e).__name__}: {str(e)[:200]}')
    try:
        leaves, spec = optree.tree_flatten(tree, **kw)
    except Exception:  # noqa: BLE001
        return fails
    for bad in (leaves[:-1], leaves + [0]) if leaves else ([0],):
        try:
            optree.tree_unflatten(spec, bad)
            fail('leafcount-accepted', f'unflatten accepted {len(bad)} leaves for {spec.num_leaves}')
        except ValueError:
            pass
        except Exception as e:  # noqa: BLE001
            fail('leafcount-error', f'wrong leaf count raised {type(e).__name__}: {str(e)[:200]}')
    return fails
