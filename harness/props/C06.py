"""C06  Treespec equality means same structure, and equal treespecs hash equally."""

from __future__ import annotations

from sexp import A, Atom, parse, render
from props.common import in_cfg, op
from gen import near_miss, relabel_leaves, vary_dicts, NAMESPACES

RULE = ('pairs of treespecs: same tree under option pairs (namespace / none_is_leaf / dict-order mode), relabelled '
        'leaves, dict insertion-order permutations, one-attribute near misses, and the same structure obtained by '
        'different routes (flatten, children + constructor, transform, compose, broadcast, unpickling); distinct by '
        'request text; non-trivial = first tree has an internal node')
TRANSLATORS = ['hash_fields']


def coll_of(t, cfg, kids):
    """collection expression that rebuilds the root of `t` from child spec expressions"""
    tag = t[0]
    if tag == 'T':
        return [A('cT'), *kids]
    if tag == 'l':
        return [A('cl'), *kids]
    if tag in ('D', 'O'):
        return [A('c' + tag), *[[k, s] for (k, _), s in zip(t[1:], kids)]]
    if tag == 'DD':
        return [A('cDD'), t[1], *[[k, s] for (k, _), s in zip(t[2:], kids)]]
    if tag == 'Q':
        return [A('cQ'), t[1], *kids]
    if tag in ('NT', 'SS'):
        return [A('c' + tag), t[1], *kids]
    if tag == 'U':
        return [A('cU'), t[1], t[2], t[3], *kids]
    return None


def children_of(t):
    from gen import children_slots
    slots = children_slots(t)
    if slots is None:
        return []
    start, pairs = slots
    return [c[1] if pairs else c for c in t[start:]]


def _generate_model_cases(gen, tier):
    rng = gen.rng
    n = 250 if tier == 'quick' else 8000
    cases = []
    for i in range(n):
        t = gen.tree(depth=rng.choice([2, 3, 3]), width=rng.choice([3, 4]),
                     weights=[3, 3, 4, 3, 3, 2, 2, 1, 3, 1, 2])
        cfg = gen.cfg(pred=rng.choice([0, 0, 0, 1, 2, 6]))
        s = [A('structure'), cfg, t]
        kind = rng.choices(['options', 'relabel', 'perm', 'near', 'route', 'unrelated'],
                           weights=[20, 10, 15, 20, 30, 5])[0]
        if kind == 'options':
            cfg2 = gen.cfg(pred=cfg[3])
            s2 = [A('structure'), cfg2, t]
        elif kind == 'relabel':
            s2 = [A('structure'), cfg, relabel_leaves(gen, t)]
        elif kind == 'perm':
            s2 = [A('structure'), cfg, vary_dicts(gen, t, p_kind=0.0, p_order=1.0, p_maxlen=0.0)]
        elif kind == 'near':
            cfg = gen.cfg(pred=0, nil=False)
            t = gen.tree(depth=rng.choice([2, 3]), width=3, kinds=['T', 'l', 'D', 'O', 'DD', 'Q', 'NT', 'SS', 'N', 'L'])
            if isinstance(t, Atom) or t[0] == 'L':
                t = [A('T'), t, gen.leaf(0)]
            s = [A('structure'), cfg, t]
            t2, _ = near_miss(gen, t)
            s2 = [A('structure'), cfg, t2]
        elif kind == 'unrelated':
            s2 = [A('structure'), gen.cfg(pred=0), gen.tree(depth=2, width=3)]
        else:
            route = rng.choice(['pickle', 'transform-id', 'rebuild', 'compose-leaf', 'bcast-self', 'bcast-leaf',
                                'transform-onelevel'])
            if route == 'pickle':
                s2 = [A('pickle'), s]
            elif route == 'transform-id':
                s2 = [A('transform'), s, 1, 1]
            elif route == 'compose-leaf':
                s2 = [A('compose'), s, [A('leafspec'), cfg[1]]]
            elif route == 'bcast-self':
                s2 = [A('bcast'), s, [A('structure'), cfg, relabel_leaves(gen, t)]]
            elif route == 'bcast-leaf':
                s2 = [A('bcast'), [A('leafspec'), cfg[1]], s]
            elif route == 'transform-onelevel':
                s2 = [A('transform'), s, 0, 1]
            else:
                kids = [[A('child'), s, j] for j in range(len(children_of(t)))] if not isinstance(t, Atom) else []
                # (under a predicate the root itself may be a leaf: rebuilding it as a node is a different structure)
                coll = coll_of(t, cfg, kids) if not isinstance(t, Atom) and t[0] not in ('L', 'D', 'DD') and cfg[3] == 0 else None
                s2 = [A('fromcoll'), [A('cfg'), cfg[1], cfg[2], 0, cfg[4]], coll] if coll else [A('pickle'), s]
            kind = 'route:' + route
        lines = [op('eq', s, s2), op('hash_eq', s, s2), op('eq', s, s)]
        cases.append({'lines': lines, 'o': {'a': render(s), 'b': render(s2), 'class': kind,
                                            'tree': render(t)}})
    return cases


def compare(line, impl_reply, model_reply):
    """equal hash inputs in the model must give equal hashes; different hash inputs may still collide in CPython
    (hash(-1) == hash(-2)), which the property allows"""
    if line.startswith('(hash_eq ') and model_reply == '(ok 0)' and impl_reply in ('(ok 0)', '(ok 1)'):
        return True
    return impl_reply == model_reply


def generate(gen, tier):
    cases = _generate_model_cases(gen, tier)
    # order-free stream: key sets outside the model's key universe (props/exotic.py); oracle only, no model lines
    n = 200 if tier == 'quick' else 5000
    for _ in range(n):
        cases.append({'lines': [], 'o': {'exotic': gen.rng.randrange(10**9)}})
    return cases


def nontrivial(case):
    if 'exotic' in case['o']:
        return True
    t = parse(case['o']['tree'])
    return not isinstance(t, Atom) and t[0] != 'L'


def distribution(cases):
    n_exotic = sum(1 for c in cases if 'exotic' in c['o'])
    cases = [c for c in cases if 'exotic' not in c['o']]
    d0 = _distribution(cases)
    d0['exotic_key_cases'] = n_exotic
    return d0


def _distribution(cases):
    d = {}
    for c in cases:
        k = c['o']['class']
        d[k] = d.get(k, 0) + 1
    return {'pair_classes': d}


def oracle(impl, o):
    if 'exotic' in o:
        import optree as _optree
        from props import exotic
        return exotic.check_C06(_optree, o['exotic'])
    u = impl.u
    fails = []
    try:
        a = impl.spec(parse(o['a']))
    except Exception:
        return []
    try:
        b = impl.spec(parse(o['b']))
    except Exception:
        b = None
    specs = [a] + ([b] if b is not None else [])
    for s in specs:
        if not (s == s) or (s != s):
            fails.append({'key': 'reflexive', 'what': 's == s is false or s != s is true'})
        if hash(s) != hash(s):
            fails.append({'key': 'hash-stable', 'what': 'hash(s) changes between calls'})
    if b is None:
        return fails
    e1, e2 = (a == b), (b == a)
    if e1 != e2:
        fails.append({'key': 'symmetric', 'what': f'a == b is {e1} but b == a is {e2}'})
    if (a != b) == e1:
        fails.append({'key': 'negation', 'what': '!= is not the negation of =='})
    if e1 and hash(a) != hash(b):
        key = 'eq-hash'
        if a.namespace != b.namespace:
            key = 'eq-hash-namespace'
        fails.append({'key': key, 'what': f'a == b but hash(a) != hash(b) (namespaces {a.namespace!r} / {b.namespace!r})',
                      'a': repr(a)[:300], 'b': repr(b)[:300]})
    if e1:
        if a not in {b} or b not in {a: 1}:
            if hash(a) == hash(b):
                fails.append({'key': 'set-membership', 'what': 'equal treespecs are not found in a set / dict'})
        # equal treespecs describe the same structure
        if a.num_leaves != b.num_leaves or a.num_nodes != b.num_nodes or a.none_is_leaf != b.none_is_leaf:
            fails.append({'key': 'eq-different-structure', 'what': 'equal treespecs with different counts / none_is_leaf'})
        if [tuple(map(_h, p)) for p in a.paths()] != [tuple(map(_h, p)) for p in b.paths()]:
            # equality ignores custom entries by design (DESIGN.md 5); only flag built-in differences
            if all(k != 0 for k in _kinds(a)):
                fails.append({'key': 'eq-different-paths', 'what': 'equal treespecs with different paths'})
    # a hash() that raised once (a key whose __hash__ fails at that moment) must leave no trace
    import optree
    from universe import FlakyKey, UserExc
    tree = {FlakyKey(1): 1, FlakyKey(2): (2, 3)}
    s1 = optree.tree_structure(tree)
    h_before = hash(s1)
    FlakyKey.broken = True
    try:
        try:
            hash(s1)
            fails.append({'key': 'hash-fault-swallowed', 'what': 'hash(treespec) did not propagate the exception of a key hash'})
        except UserExc:
            pass
    finally:
        FlakyKey.broken = False
    s2 = optree.tree_structure({FlakyKey(1): 5, FlakyKey(2): (6, 7)})
    if hash(s1) != h_before or hash(s1) != hash(s2) or not (s1 == s2):
        fails.append({'key': 'hash-after-failed-hash', 'what': f'after a hash() call that raised, hash(s) = {hash(s1)} but an equal treespec hashes to {hash(s2)} (before: {h_before})'})
    del s1
    s3 = optree.tree_structure((1, [2, {'a': 3}]))
    s4 = optree.tree_structure((4, [5, {'a': 6}]))
    if hash(s3) != hash(s4):
        fails.append({'key': 'hash-after-failed-hash', 'what': 'equal treespecs hash differently after an earlier hash() call raised'})
    cls = o['class']
    if cls in ('relabel',) or cls.startswith('route:'):
        if cls not in ('route:transform-onelevel',) and not e1:
            fails.append({'key': 'route-' + cls, 'what': f'the same structure obtained via {cls} compares unequal',
                          'a': repr(a)[:300], 'b': repr(b)[:300]})
    if cls == 'near' and e1:
        fails.append({'key': 'near-miss-equal', 'what': 'treespecs differing in one node attribute compare equal',
                      'a': repr(a)[:300], 'b': repr(b)[:300]})
    return fails


def _h(e):
    return e if isinstance(e, (int, str, tuple)) else ('uid', getattr(e, 'uid', id(e)))


def _kinds(s):
    return [n[0] for n in s.__getstate__()[0]]
