"""Key sets outside the model's key universe (the *order-free* stream of DESIGN.md 4.1).

The Lean model knows int / str / int-tuple / user-object keys.  CPython has many more hashable key types, and the
engine's ordering rule ("sorted if the keys can be sorted, else sorted by (type name, key), else insertion order")
behaves differently on them: keys of *different exact types that still compare* (bool + int, int + float, str +
a str subclass, int + IntEnum / Fraction, tuple + namedtuple), *partial orders* (frozensets, NaN), incomparable
mixes that the (type name, key) fallback orders (None + str, bytes + str), and unsortable ones (complex).

Cases of this stream carry no correspondence lines: the trees are built here from a seed, and each property's own
statement is evaluated on the implementation against a reference written from the README rules
(`ref_total_order`).  Shared by the oracles of C01, C02, C03, C06 and C18.
"""

from __future__ import annotations

import enum
import random
from collections import OrderedDict, defaultdict, namedtuple
from fractions import Fraction


class StrSub(str):
    pass


class Color(enum.IntEnum):
    RED = 7
    GREEN = -3
    BLUE = 20


KeyNT = namedtuple('KeyNT', ['a', 'b'])


class EqFactory:
    """a default factory that compares by value: two instances are == without being the same object"""

    def __init__(self, v):
        self.v = v

    def __call__(self):
        return self.v

    def __eq__(self, other):
        return type(other) is EqFactory and other.v == self.v

    def __hash__(self):
        return hash(('EqFactory', self.v))

    def __repr__(self):
        return f'EqFactory({self.v})'


class Holder:
    def make(self):
        return 0


class Leafy:
    """an opaque leaf with identity"""
    __slots__ = ('n',)

    def __init__(self, n):
        self.n = n

    def __repr__(self):
        return f'Leafy({self.n})'


def _pool(rng, style):
    if style == 'bool-int':
        return rng.sample([False, True, -2, 5, 9, -7, 3], rng.choice([2, 3, 4]))
    if style == 'int-float':
        return rng.sample([2, 3.5, -1.25, 7, 0.5, -4, 10.75], rng.choice([2, 3, 4]))
    if style == 'str-strsub':
        return rng.sample(['b', StrSub('a'), 'd', StrSub('c'), StrSub('e'), ''], rng.choice([2, 3, 4]))
    if style == 'int-intenum':
        return rng.sample([Color.RED, 1, Color.GREEN, 8, Color.BLUE, -5], rng.choice([2, 3, 4]))
    if style == 'int-fraction':
        return rng.sample([Fraction(1, 2), 1, Fraction(-7, 3), 3, 0, Fraction(9, 4)], rng.choice([2, 3, 4]))
    if style == 'tuple-namedtuple':
        return rng.sample([(1, 2), KeyNT(0, 5), (0,), KeyNT(1, 1), (), (1, 2, 0)], rng.choice([2, 3, 4]))
    if style == 'frozenset':
        return rng.sample([frozenset({1}), frozenset({2}), frozenset({1, 2}), frozenset(), frozenset({3}),
                           frozenset({2, 3})], rng.choice([2, 3, 4]))
    if style == 'nan':
        return rng.sample([float('nan'), 1.0, float('nan'), 2.5, -1.0], rng.choice([2, 3, 4]))
    if style == 'none-str':
        return rng.sample([None, 'b', 'a', 'c', ''], rng.choice([2, 3, 4]))
    if style == 'bytes-str':
        return rng.sample([b'b', 'a', b'a', 'c', b''], rng.choice([2, 3, 4]))
    if style == 'bool-str-float':
        return rng.sample([True, 'a', 2.5, False, 'b', -1.5, 4], rng.choice([3, 4, 5]))
    if style == 'complex':
        return rng.sample([1j, 2j, 3 + 0j, -1j], rng.choice([2, 3]))
    if style == 'complex-int':
        return rng.sample([1j, 2j, 5, 3, -1], rng.choice([3, 4]))
    raise ValueError(style)


STYLES = ['bool-int', 'int-float', 'str-strsub', 'int-intenum', 'int-fraction', 'tuple-namedtuple', 'frozenset',
          'nan', 'none-str', 'bytes-str', 'bool-str-float', 'complex', 'complex-int']


def build(seed: int):
    """(tree, info): a tree containing 1-3 dict / defaultdict / OrderedDict nodes with exotic key sets"""
    rng = random.Random(seed)
    counter = [0]

    def leaf():
        counter[0] += 1
        return Leafy(counter[0])

    styles = []

    def dictnode(depth):
        style = rng.choice(STYLES)
        styles.append(style)
        keys = _pool(rng, style)
        rng.shuffle(keys)
        kind = rng.choice(['dict', 'dict', 'defaultdict', 'ordereddict'])
        items = []
        for k in keys:
            c = rng.random()
            if depth > 0 and c < 0.2:
                v = dictnode(depth - 1)
            elif c < 0.45:
                v = (leaf(), leaf())
            elif c < 0.55:
                v = [leaf()]
            else:
                v = leaf()
            items.append((k, v))
        if kind == 'dict':
            return dict(items)
        if kind == 'defaultdict':
            return defaultdict(rng.choice([None, list, int]), items)
        return OrderedDict(items)

    shape = rng.choice(['root', 'root', 'in-tuple', 'in-list', 'two'])
    if shape == 'root':
        tree = dictnode(1)
    elif shape == 'in-tuple':
        tree = (leaf(), dictnode(1), leaf())
    elif shape == 'in-list':
        tree = [dictnode(1), leaf()]
    else:
        tree = {'x': dictnode(0), 'y': [dictnode(0), leaf()]}
    return tree, {'styles': styles, 'shape': shape, 'seed': seed}


def ref_total_order(keys):
    keys = list(keys)
    try:
        return sorted(keys)
    except TypeError:
        try:
            return sorted(keys, key=lambda k: (f'{k.__class__.__module__}.{k.__class__.__qualname__}', k))
        except TypeError:
            return keys


def ref_leaves(x, insertion):
    """documented leaf order for trees made by `build` (builtin containers, Leafy leaves)"""
    t = type(x)
    if t in (tuple, list):
        return [l for c in x for l in ref_leaves(c, insertion)]
    if t is OrderedDict:
        return [l for c in x.values() for l in ref_leaves(c, insertion)]
    if t in (dict, defaultdict):
        keys = list(x) if insertion else ref_total_order(x)
        return [l for k in keys for l in ref_leaves(x[k], insertion)]
    return [x]


def permuted(x, rng):
    """the same tree with every dict / defaultdict rebuilt in a different insertion order"""
    t = type(x)
    if t in (tuple, list):
        return t(permuted(c, rng) for c in x)
    if t is OrderedDict:
        return OrderedDict((k, permuted(v, rng)) for k, v in x.items())
    if t in (dict, defaultdict):
        items = [(k, permuted(v, rng)) for k, v in x.items()]
        rng.shuffle(items)
        return dict(items) if t is dict else defaultdict(x.default_factory, items)
    return x


def same_ids(a, b):
    return len(a) == len(b) and all(x is y for x, y in zip(a, b))


def struct(x):
    """exact structure: container types, key order (by identity of key objects where hashable-equal), leaf identity"""
    t = type(x)
    if t in (tuple, list):
        return (t.__name__, tuple(struct(c) for c in x))
    if t in (dict, OrderedDict, defaultdict):
        f = getattr(x, 'default_factory', None)
        return (t.__name__, getattr(f, '__name__', None), tuple((id(k), repr(type(k)), struct(v)) for k, v in x.items()))
    return ('leaf', id(x))


def dict_nodes(x, out=None):
    out = [] if out is None else out
    t = type(x)
    if t in (tuple, list):
        for c in x:
            dict_nodes(c, out)
    elif t in (dict, OrderedDict, defaultdict):
        out.append(x)
        for v in x.values():
            dict_nodes(v, out)
    return out


# ---------------------------------------------------------------------------------------------------------
# per-property checks (each returns a list of failure dicts with a stable `key`)

def check_C02(optree, seed):
    fails = []
    tree, info = build(seed)
    for nil in (False, True):
        for ns, insertion in (('', False), ('exo-ins', True)):
            ctx = optree.dict_insertion_ordered(True, namespace=ns) if insertion else None
            if ctx:
                ctx.__enter__()
            try:
                got = optree.tree_leaves(tree, none_is_leaf=nil, namespace=ns)
            except Exception as e:  # noqa: BLE001
                fails.append({'key': 'exotic-leaves-raise', 'what': f'tree_leaves raised {type(e).__name__}: {e}', 'info': info})
                continue
            finally:
                if ctx:
                    ctx.__exit__(None, None, None)
            want = ref_leaves(tree, insertion)
            if not same_ids(got, want):
                fails.append({'key': 'exotic-leaf-order', 'what': 'tree_leaves differs from the documented order (sorted keys if they sort, '
                              'else by (type name, key), else insertion order)', 'tree': repr(tree)[:300],
                              'want': repr(want)[:200], 'got': repr(got)[:200], 'info': info, 'insertion_mode': insertion})
    return fails


def check_C03(optree, seed):
    fails = []
    tree, info = build(seed)
    try:
        leaves, spec = optree.tree_flatten(tree)
        it = list(optree.tree_iter(tree))
        paths, pleaves, pspec = optree.tree_flatten_with_path(tree)
        accs, aleaves, aspec = optree.tree_flatten_with_accessor(tree)
    except Exception as e:  # noqa: BLE001
        return [{'key': 'exotic-traversal-raises', 'what': f'{type(e).__name__}: {e}', 'info': info}]
    if not same_ids(leaves, it):
        fails.append({'key': 'exotic-iter-order', 'what': 'tree_iter yields the leaves in a different order than tree_flatten',
                      'tree': repr(tree)[:300], 'flatten': repr(leaves)[:200], 'iter': repr(it)[:200], 'info': info})
    if not same_ids(leaves, pleaves) or not same_ids(leaves, aleaves):
        fails.append({'key': 'exotic-with-path-order', 'what': 'flatten_with_path / _with_accessor leaves differ from tree_flatten', 'info': info})
    if pspec != spec or aspec != spec or repr(pspec) != repr(spec):
        fails.append({'key': 'exotic-spec-differs', 'what': 'treespecs of the traversal entry points differ', 'info': info})
    if list(paths) != list(spec.paths()):
        fails.append({'key': 'exotic-paths-differ', 'what': 'paths of flatten_with_path differ from treespec.paths()', 'info': info})
    for acc, leaf in zip(accs, leaves):
        try:
            if acc(tree) is not leaf:
                fails.append({'key': 'exotic-accessor', 'what': f'accessor {acc!r} does not return its leaf', 'info': info})
                break
        except Exception as e:  # noqa: BLE001
            fails.append({'key': 'exotic-accessor', 'what': f'accessor {acc!r} raised {type(e).__name__}', 'info': info})
            break
    return fails


def check_C01(optree, seed):
    fails = []
    tree, info = build(seed)
    for ns, insertion in (('', False), ('exo-ins', True)):
        ctx = optree.dict_insertion_ordered(True, namespace=ns) if insertion else None
        if ctx:
            ctx.__enter__()
        try:
            leaves, spec = optree.tree_flatten(tree, namespace=ns)
            back = optree.tree_unflatten(spec, leaves)
            leaves2, spec2 = optree.tree_flatten(back, namespace=ns)
        except Exception as e:  # noqa: BLE001
            fails.append({'key': 'exotic-roundtrip-raises', 'what': f'{type(e).__name__}: {e}', 'info': info})
            continue
        finally:
            if ctx:
                ctx.__exit__(None, None, None)
        if struct(back) != struct(tree):
            fails.append({'key': 'exotic-rebuilt-differs', 'what': 'unflatten(flatten(t)) is not t (container types, key order, leaf identity)',
                          'tree': repr(tree)[:300], 'back': repr(back)[:300], 'info': info, 'insertion_mode': insertion})
        if not same_ids(leaves, leaves2) or spec != spec2:
            fails.append({'key': 'exotic-reflatten-differs', 'what': 're-flattening the rebuilt tree gives other leaves / treespec', 'info': info})
    return fails


def check_C06(optree, seed):
    """`==` means same structure: equal treespecs have equal paths, equal hashes, and unflatten to equal trees"""
    fails = check_C06_factories(optree, seed)
    tree, info = build(seed)
    rng = random.Random(seed ^ 0x5eed)
    other = permuted(tree, rng)
    for ns, insertion in (('', False), ('exo-ins', True)):
        ctx = optree.dict_insertion_ordered(True, namespace=ns) if insertion else None
        if ctx:
            ctx.__enter__()
        try:
            la, a = optree.tree_flatten(tree, namespace=ns)
            lb, b = optree.tree_flatten(other, namespace=ns)
        except Exception:  # noqa: BLE001
            continue
        finally:
            if ctx:
                ctx.__exit__(None, None, None)
        eq, ne = (a == b), (a != b)
        if eq == ne:
            fails.append({'key': 'exotic-eq-ne', 'what': '== and != are not negations', 'info': info})
        same_structure = [list(d) for d in dict_nodes(optree.tree_unflatten(a, la))] == \
            [list(d) for d in dict_nodes(optree.tree_unflatten(b, la))] and list(a.paths()) == list(b.paths())
        if eq:
            if hash(a) != hash(b):
                fails.append({'key': 'exotic-eq-hash', 'what': 'equal treespecs with different hashes', 'a': repr(a)[:200], 'b': repr(b)[:200], 'info': info})
            if list(a.paths()) != list(b.paths()):
                fails.append({'key': 'exotic-eq-paths', 'what': 'treespecs compare equal but their leaf paths differ (leaves sit under different keys)',
                              'a': repr(a)[:200], 'b': repr(b)[:200], 'info': info, 'insertion_mode': insertion})
            ua, ub = optree.tree_unflatten(a, la), optree.tree_unflatten(b, la)
            if ua != ub:
                fails.append({'key': 'exotic-eq-unflatten', 'what': 'treespecs compare equal but unflatten the same leaves to different trees',
                              'a': repr(a)[:200], 'b': repr(b)[:200], 'info': info, 'insertion_mode': insertion})
            if {a: 1}.get(b) != 1 or len({a, b}) != 1:
                fails.append({'key': 'exotic-eq-container', 'what': 'equal treespecs are not interchangeable as dict keys / set members', 'info': info})
        elif same_structure and repr(a) == repr(b):
            fails.append({'key': 'exotic-ne-same', 'what': 'treespecs of the same structure (same repr, same paths) compare unequal',
                          'a': repr(a)[:200], 'info': info})
    return fails


def check_C06_factories(optree, seed):
    """node payloads that are equal without being identical (default factories, here): `==` compares them by value, so
    the hash must not depend on their identity"""
    import copy
    import pickle
    fails = []
    rng = random.Random(seed)
    h = Holder()
    value_equal = rng.random() < 0.5
    mk = (lambda: EqFactory(rng_v)) if value_equal else (lambda: h.make)
    rng_v = rng.randrange(3)
    keys = rng.sample(['a', 'b', 'c', 1, 2], rng.choice([1, 2, 3]))

    def tree():
        d = defaultdict(mk(), [(k, Leafy(0)) for k in keys])
        return rng.choice([d, [d, Leafy(1)], {'x': d}])
    rng_state = rng.getstate()
    t1 = tree()
    rng.setstate(rng_state)
    t2 = tree()
    a, b = optree.tree_structure(t1), optree.tree_structure(t2)
    specs = [('flatten twice', b)]
    try:
        specs.append(('unpickled', pickle.loads(pickle.dumps(a))))
        specs.append(('deepcopy', copy.deepcopy(a)))
    except Exception:  # noqa: BLE001
        pass
    for route, other in specs:
        if a == other and hash(a) != hash(other):
            fails.append({'key': 'exotic-eq-hash-payload', 'what': f'{route}: treespecs whose node payloads are equal but not identical objects compare '
                          f'equal and hash differently', 'a': repr(a)[:200]})
        if a == other and (len({a, other}) != 1 or {a: 1}.get(other) != 1):
            fails.append({'key': 'exotic-eq-container', 'what': f'{route}: equal treespecs are not interchangeable as set members / dict keys', 'a': repr(a)[:200]})
        # (a copied bound method belongs to a copied object and is a different, unequal factory)
        if not (a == other) and (value_equal or route == 'flatten twice'):
            fails.append({'key': 'exotic-ne-equal-payload', 'what': f'{route}: same structure with an equal default factory compares unequal', 'a': repr(a)[:200]})
    return fails


def check_C18(optree, seed):
    fails = []
    tree, info = build(seed)
    for d in dict_nodes(tree):
        if type(d) is OrderedDict:
            continue
        keys = list(d)
        twin = optree.utils.total_order_sorted(keys)
        engine = optree.tree_structure(dict.fromkeys(keys, 0)).entries()
        if [id(k) for k in twin] != [id(k) for k in engine]:
            fails.append({'key': 'exotic-sort-twin', 'what': 'the engine orders dict keys differently from optree.utils.total_order_sorted',
                          'keys': repr(keys), 'engine': repr(engine), 'twin': repr(twin), 'info': info})
            break
        try:
            one = optree.tree_flatten_one_level(d)
        except Exception as e:  # noqa: BLE001
            fails.append({'key': 'exotic-one-level-raises', 'what': f'tree_flatten_one_level raised {type(e).__name__}: {e}', 'info': info})
            break
        spec = optree.tree_structure(d, is_leaf=lambda x: x is not d)
        if [id(k) for k in one.entries] != [id(k) for k in spec.entries()] or \
                not same_ids(list(one.children), [d[k] for k in spec.entries()]):
            fails.append({'key': 'exotic-one-level-twin', 'what': "the Python one-level flatten of a dict node differs from the engine's node (entries / children order)",
                          'python': repr(one.entries), 'engine': repr(spec.entries()), 'info': info})
            break
    return fails
