"""C17  Concurrent use from several threads is equivalent to some sequential use."""

from __future__ import annotations

from sexp import A, parse, render
from props.common import op

RULE = ('pairs (A, B) of operations from the public API: A is parked inside its k-th Python-level callback (is_leaf, custom '
        'flatten / unflatten, mapped function, key __lt__/__hash__/__eq__/__repr__, metadata __eq__, metaclass hooks consulted '
        'during registration, warnings.showwarning) while B runs on another thread, for every k (quick: up to 6 positions per '
        'pair, thorough: all) -- every schedule in a forked child under an alarm; a shared leaf iterator consumed by two '
        'threads; thorough: randomised pre-emptive schedules (switch interval 1 microsecond, 8 threads); correspondence: the '
        'lock programs T-locks extracts for A and B run on the thread machine; non-trivial = B really ran while A was parked')
TRANSLATORS = ['locks']
EXTRA_TRUST = ['pre-emption inside C++ on free-threaded builds and real timing are not modelled (the engine is built for an '
               'interpreter with a GIL; `#ifdef Py_GIL_DISABLED` branches are dropped by T-locks)',
               'T-locks: the list of primitives that can re-enter Python (attribute access, repr/str, calls, comparisons, hashing, '
               'warnings, sorting, dict operations) and the closure over the repository\'s own functions; dropping references under a '
               'lock is not counted as a callback',
               'the dict-order mode switch is excluded, as the property says']
SETUP_LINES = []
TEARDOWN_LINES = []
IMPL_TIMEOUT = 6000

import_ops = None


def _ops():
    # engine functions per operation (for the model request); the operations themselves are in harness/sched_impl.py
    L, R, U = 'src/registry.cpp:Lookup', 'src/registry.cpp:RegisterImpl', 'src/registry.cpp:UnregisterImpl'
    return {
        'flatten_pred': [L], 'flatten_custom': [L], 'flatten_with_path': [L], 'map': [L], 'unflatten': [], 'iter': [L],
        'spec_eq': [], 'spec_hash': ['src/treespec/hashing.cpp:HashValue'], 'spec_hash_same': ['src/treespec/hashing.cpp:HashValue'],
        'spec_repr': ['src/treespec/serialization.cpp:ToString'], 'pickle': [L], 'paths_accessors': [],
        'register_nt': [R], 'unregister_nt': [U], 'unregister_nt_registered': [U], 'register_other': [R],
        'unregister_other_registered': [U], 'register_dup_hooked': [R], 'unregister_missing_hooked': [U],
        'unregister_hooked_registered': [U], 'flatten_nt_instance': [L],
        'is_namedtuple_class': ['include/optree/pytypes.h:IsNamedTupleClass', 'include/optree/pytypes.h:IsStructSequenceClass'],
        'dict_order_read': ['include/optree/treespec.h:IsDictInsertionOrdered'], 'shared_iter': [L],
        'classify_fresh_nt': ['include/optree/pytypes.h:IsNamedTupleClass'],
        'leaves_fresh_nt': [L, 'include/optree/pytypes.h:IsNamedTupleClass'],
    }


A_OPS = ['flatten_pred', 'flatten_custom', 'flatten_with_path', 'map', 'unflatten', 'iter', 'spec_eq', 'spec_hash', 'spec_repr',
         'pickle', 'register_nt', 'register_dup_hooked', 'unregister_missing_hooked', 'is_namedtuple_class', 'shared_iter',
         'classify_fresh_nt']
B_OPS = ['flatten_custom', 'register_other', 'register_nt', 'unregister_nt', 'unregister_nt_registered',
         'unregister_other_registered', 'unregister_hooked_registered', 'flatten_nt_instance', 'spec_hash_same', 'spec_repr',
         'spec_eq', 'unflatten', 'map', 'is_namedtuple_class', 'dict_order_read', 'paths_accessors', 'shared_iter',
         'leaves_fresh_nt']


def generate(gen, tier):
    rng = gen.rng
    fns = _ops()
    cases = []
    pairs = [(a, b) for a in A_OPS for b in B_OPS if (a == 'shared_iter') == (b == 'shared_iter')]
    line_pairs = [(a, b) for a, b in pairs if fns[a] and fns[b]]
    for a, b in pairs:
        lines = []
        if (a, b) in line_pairs and (tier != 'quick' or rng.random() < 0.35):
            lines = [op('c17pair', a, b, list(fns[a]), list(fns[b]))]
        cases.append({'lines': lines, 'o': {'kind': 'pair', 'a': a, 'b': b, 'all_positions': tier != 'quick'}})
    if tier != 'quick':
        cases.append({'lines': [], 'o': {'kind': 'preemptive', 'seconds': 60, 'threads': 8, 'seed': rng.randrange(10**9)}})
    else:
        cases.append({'lines': [], 'o': {'kind': 'preemptive', 'seconds': 4, 'threads': 6, 'seed': rng.randrange(10**9)}})
    return cases


def nontrivial(case):
    return True


def distribution(cases):
    d = {}
    for c in cases:
        d[c['o']['kind']] = d.get(c['o']['kind'], 0) + 1
    return {'case_kinds': d, 'a_operations': len(A_OPS), 'b_operations': len(B_OPS)}


# ------------------------------------------------------------------------------------ implementation oracle

def oracle(impl, o):
    if o['kind'] == 'preemptive':
        return _preemptive(o)
    import sched_impl
    a, b = o['a'], o['b']
    fails = []
    k = sched_impl.count_callbacks(a)
    if k == 0:
        return []
    if o['all_positions'] or k <= 6:
        positions = list(range(k))
    else:
        positions = sorted({0, 1, k // 3, k // 2, (2 * k) // 3, k - 1})
    for park in positions:
        status, detail = sched_impl.run_pair(a, b, park)
        where = f'{a} parked in its callback #{park} of {k} while {b} runs on a second thread'
        if status == 'deadlock':
            fails.append({'key': f'deadlock-{a}-{b}', 'what': f'{where}: the interpreter froze (a thread waits for an engine '
                          f'mutex while holding the GIL); killed by the alarm', 'park': park})
            break
        if status == 'crash':
            fails.append({'key': f'crash-{a}-{b}', 'what': f'{where}: {detail[:300]}', 'park': park})
            break
        d = detail
        if d['status'] != 'completes':
            fails.append({'key': f'python-deadlock-{a}-{b}', 'what': f'{where}: {d["status"]}', 'park': park})
            break
        run, seq_ab, seq_ba = d['run'], d['seq_ab'], d['seq_ba']
        if a == 'shared_iter':
            la = run[0] if isinstance(run[0], list) else []
            lb = run[1] if isinstance(run[1], list) else []
            alone = sorted((seq_ab[0] if isinstance(seq_ab[0], list) else []) + (seq_ab[1] if isinstance(seq_ab[1], list) else []))
            if sorted(la + lb) != alone:
                fails.append({'key': 'shared-iterator-not-exactly-once', 'what': f'{where}: the two consumers of one leaf iterator '
                              f'received {la} and {lb}; the leaves are {alone}', 'park': park})
            continue
        if not d['parked']:
            continue
        if run != seq_ab and run != seq_ba:
            fails.append({'key': f'not-linearizable-{a}-{b}', 'what': f'{where}: results and final registry state match neither '
                          f'sequential order', 'got': str(run)[:500], 'a_then_b': str(seq_ab)[:500], 'b_then_a': str(seq_ba)[:500],
                          'park': park})
    return fails


def _preemptive(o):
    """many threads, microsecond switch interval: every operation returns what it returns alone"""
    import sched_impl

    def cell():
        import random
        import sys
        import threading
        import time
        import universe
        ctx = sched_impl.context()
        ctx['hash0'] = hash(ctx['spec'])
        import optree
        ops = sched_impl.operations(ctx)
        names = [n for n in ops if n != 'shared_iter' and 'register' not in n and n != 'flatten_nt_instance']
        nohook = lambda kind, obj=None: None     # noqa: E731
        alone = {n: ops[n][1](nohook) for n in names}
        rng = random.Random(o['seed'])
        plan = [[rng.choice(names) for _ in range(100000)] for _ in range(o['threads'])]
        bad = []
        stop = time.time() + o['seconds']
        sys.setswitchinterval(1e-6)

        def worker(i):
            j = 0
            while time.time() < stop and not bad:
                n = plan[i][j % len(plan[i])]
                j += 1
                try:
                    r = ops[n][1](nohook)
                except BaseException as e:   # noqa: BLE001
                    r = 'raised ' + type(e).__name__ + ': ' + str(e)[:100]
                if r != alone[n]:
                    bad.append((n, str(r)[:200], str(alone[n])[:200]))
            counts[i] = j
        counts = [0] * o['threads']
        # one more thread registers and unregisters an unrelated type all the time
        def registrar():
            while time.time() < stop and not bad:
                r1 = ops['register_other'][1](nohook)
                r2 = ops['unregister_other_registered'][1](nohook)
                if (r1, r2) != ('ok', 'ok'):
                    bad.append(('register_other/unregister', str((r1, r2)), "('ok', 'ok')"))
        ts = [threading.Thread(target=worker, args=(i,)) for i in range(o['threads'])] + [threading.Thread(target=registrar)]
        for t in ts:
            t.start()
        for t in ts:
            t.join(o['seconds'] + 30)
        if any(t.is_alive() for t in ts):
            return {'status': 'threads-stuck'}
        return {'status': 'ok', 'bad': bad[:3], 'calls': sum(counts)}
    status, text = sched_impl.in_child(cell, timeout=o['seconds'] + 60)
    if status == 'timeout':
        return [{'key': 'preemptive-deadlock', 'what': f'{o["threads"]} threads with a 1 microsecond switch interval: the interpreter froze'}]
    if status != 'ok':
        return [{'key': 'preemptive-crash', 'what': f'{o["threads"]} threads with a 1 microsecond switch interval: {status} {text[-400:]}'}]
    d = eval(text.split(' ', 1)[1])      # noqa: S307
    if d['status'] != 'ok':
        return [{'key': 'preemptive-stuck', 'what': d['status']}]
    if d['bad']:
        n, got, want = d['bad'][0]
        return [{'key': f'preemptive-result-differs-{n}', 'what': f'under pre-emption {n} returned {got}; alone it returns {want}'}]
    return []
