"""C13  Insertion-ordered dict mode is scoped to its namespace and with-block."""

from __future__ import annotations

import itertools

from sexp import A, Atom, parse, render
from props.common import op

RULE = ('all well-nested enter(True|False, N) / exit / raise programs over N in {global, a, b} up to a nesting bound '
        '(exhaustive), longer ones sampled; after every event the mode of every namespace is observed and dicts are '
        'flattened in every namespace through every traversal and constructor; distinct by program text; non-trivial = '
        'at least one block')
SETUP_LINES = []
TEARDOWN_LINES = []


def programs(depth, ns_list=('', 'a', 'b')):
    """all programs: sequences of blocks (enter, body, exit|raise) with nesting <= depth, at most 2 siblings"""
    if depth == 0:
        return [[]]
    inner = programs(depth - 1, ns_list)
    blocks = []
    for mode in ('1', '0'):
        for ns in ns_list:
            for body in inner:
                blocks.append([[A('enter'), A(mode), ns], *body, [A('exit')]])
    out = [[]]
    out.extend(blocks)
    return out


def generate(gen, tier):
    rng = gen.rng
    cases = []
    depth = 2 if tier == 'quick' else 3
    progs = programs(depth)
    if tier == 'quick':
        progs = progs[:: max(1, len(progs) // 150)]
    else:
        progs = progs[:: max(1, len(progs) // 3000)]
    for p in progs:
        cases.append(mk(p))
        # the same program with an exception raised inside the innermost block, then more blocks
        if p:
            k = max(i for i, e in enumerate(p) if e[0] == 'enter')
            q = p[:k + 1] + [[A('raise')]] + [[A('enter'), A('1'), 'b'], [A('exit')]]
            cases.append(mk(q))
    # sampled longer programs
    n = 100 if tier == 'quick' else 3000
    for _ in range(n):
        ev = []
        open_ = 0
        for _ in range(rng.randrange(4, 14)):
            c = rng.random()
            if c < 0.5 or open_ == 0:
                ev.append([A('enter'), A(rng.choice('10')), rng.choice(['', 'a', 'b'])])
                open_ += 1
            elif c < 0.9:
                ev.append([A('exit')])
                open_ -= 1
            else:
                ev.append([A('raise')])
                open_ = 0
        ev.extend([[A('exit')]] * open_)
        cases.append(mk(ev))
    return cases


def mk(events):
    return {'lines': [op('ordersm', *events)] if events else [], 'o': {'events': render(events)}}


def nontrivial(case):
    return len(parse(case['o']['events'])) > 0


def distribution(cases):
    lens = {}
    raises = 0
    for c in cases:
        ev = parse(c['o']['events'])
        lens[len(ev)] = lens.get(len(ev), 0) + 1
        raises += any(e[0] == 'raise' for e in ev)
    return {'program_lengths': lens, 'programs_with_raise': raises}


def oracle(impl, o):
    import optree
    from optree import _C
    from collections import OrderedDict, defaultdict
    events = parse(o['events'])
    fails = []
    before = [[bool(_C.is_dict_insertion_ordered(n, False))] for n in ('', 'a', 'b')]
    d = {'b': 1, 'a': 2, 'c': 3}
    dd = defaultdict(int, d)
    od = OrderedDict(d)

    # reference semantics of the with-blocks, tracked independently of the engine's flag set
    own = {'': False, 'a': False, 'b': False, 'zz': False}
    stack = []

    def ref_step(e):
        if e[0] == 'enter':
            stack.append((str(e[2]), own[str(e[2])]))
            own[str(e[2])] = (e[1] == '1')
        elif e[0] == 'exit':
            if stack:
                ns0, prev = stack.pop()
                own[ns0] = prev
        else:
            while stack:
                ns0, prev = stack.pop()
                own[ns0] = prev

    def observe(step):
        ref_step(events[step])
        for ns in ('', 'a', 'b', 'zz'):
            want_ins = own[ns] or own['']
            if bool(_C.is_dict_insertion_ordered(ns, True)) != want_ins or \
                    bool(_C.is_dict_insertion_ordered(ns, False)) != own[ns]:
                fails.append({'key': 'mode-flag-wrong', 'what': f'step {step}: namespace {ns!r}: engine says own={bool(_C.is_dict_insertion_ordered(ns, False))} effective={bool(_C.is_dict_insertion_ordered(ns, True))}, the with-blocks entered so far imply own={own[ns]} effective={want_ins}'})
            want = [1, 2, 3] if want_ins else [2, 1, 3]
            obs = {
                'tree_flatten': optree.tree_flatten(d, namespace=ns)[0],
                'tree_flatten(defaultdict)': optree.tree_flatten(dd, namespace=ns)[0],
                'tree_flatten_with_path': optree.tree_flatten_with_path(d, namespace=ns)[1],
                'tree_iter': list(optree.tree_iter(d, namespace=ns)),
                'tree_leaves': optree.tree_leaves(d, namespace=ns),
                'treespec_dict': optree.treespec_dict({k: optree.treespec_leaf() for k in d}, namespace=ns).entries(),
                'treespec_defaultdict': optree.treespec_defaultdict(int, {k: optree.treespec_leaf() for k in d}, namespace=ns).entries(),
                'treespec_from_collection': optree.treespec_from_collection({k: optree.treespec_leaf() for k in d}, namespace=ns).entries(),
            }
            for name, got in obs.items():
                if name.startswith('treespec'):
                    got = [d[k] for k in got]
                if got != want:
                    fails.append({'key': f'mode-not-honoured-{name}', 'what': f'step {step}: {name} in namespace {ns!r} gives order {got}, mode insertion-ordered={want_ins}'})
            if optree.tree_leaves(od, namespace=ns) != [1, 2, 3]:
                fails.append({'key': 'ordereddict-affected', 'what': 'OrderedDict flatten order changed with the mode'})
            # round trip inside the block
            leaves, spec = optree.tree_flatten(d, namespace=ns)
            if list(optree.tree_unflatten(spec, leaves).items()) != list(d.items()):
                fails.append({'key': 'roundtrip-in-block', 'what': 'round trip does not restore the dict inside the block'})
            # the Python-visible registry lookup reflects the mode
            h = optree.register_pytree_node.get(dict, namespace=ns)
            children = list(h.flatten_func(d)[0])
            if children != want:
                fails.append({'key': 'registry-get-dict', 'what': f'register_pytree_node.get(dict, namespace={ns!r}) does not reflect the mode'})
            h2 = optree.register_pytree_node.get(namespace=ns)[defaultdict]
            if list(h2.flatten_func(dd)[0]) != want:
                fails.append({'key': 'registry-get-defaultdict', 'what': 'register_pytree_node.get(namespace=...)[defaultdict] does not reflect the mode'})

    impl.ordersm(events, observe)
    after = [[bool(_C.is_dict_insertion_ordered(n, False))] for n in ('', 'a', 'b')]
    if before != after:
        fails.append({'key': 'mode-not-restored', 'what': f'modes before {before} and after {after} the program differ'})
        for n in ('', 'a', 'b'):
            _C.set_dict_insertion_ordered(False, n)
    return fails
