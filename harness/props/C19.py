"""C19  optree dataclasses and optree partial are faithful pytree nodes."""

from __future__ import annotations

import itertools

from sexp import A, Atom, parse, render
from props.common import op

RULE = ('field layouts (declaration order, init / pytree_node flags; exhaustive for <= 3 fields, sampled up to 6), '
        'decorated twice / empty namespace / non-class faults; instances with pytree field values; partials over '
        'partials with positional / keyword pytrees; distinct by request text; non-trivial = at least 2 fields')
SETUP_LINES = []
TEARDOWN_LINES = []
EXTRA_TRUST = ['dataclasses.dataclass itself is not modelled: the generated class is compared with the one the '
               'stdlib decorator produces (fields, init signature, eq, repr) by the implementation oracle']


def layouts(tier, rng):
    flags = [(i, p) for i in '10' for p in '10']
    out = []
    for n in range(0, 4):
        for combo in itertools.product(flags, repeat=n):
            out.append([[f'f{j}', A(i), A(p)] for j, (i, p) in enumerate(combo)])
    extra = 60 if tier == 'quick' else 1500
    for _ in range(extra):
        n = rng.randrange(4, 7)
        out.append([[f'f{j}', A(rng.choice('1110')), A(rng.choice('110'))] for j in range(n)])
    return out


def generate(gen, tier):
    rng = gen.rng
    cases = []
    for fields in layouts(tier, rng):
        for faults in (('1', '0', '0'), ('1', '1', '0'), ('1', '0', '1'), ('0', '0', '0')):
            if faults != ('1', '0', '0') and rng.random() < 0.8:
                continue
            cases.append({'lines': [op('dcpart', A(faults[0]), A(faults[1]), A(faults[2]), *fields)],
                          'o': {'kind': 'dc', 'req': render([A('dcpart'), A(faults[0]), A(faults[1]), A(faults[2]), *fields])}})
    n = 60 if tier == 'quick' else 1500
    for _ in range(n):
        cases.append({'lines': [], 'o': {'kind': 'partial', 'seed': rng.randrange(10**6)}})
    return cases


def nontrivial(case):
    if case['o']['kind'] == 'partial':
        return True
    return len(parse(case['o']['req'])) >= 6


def distribution(cases):
    d = {}
    for c in cases:
        d[c['o']['kind']] = d.get(c['o']['kind'], 0) + 1
    return {'case_kinds': d}


def oracle(impl, o):
    import dataclasses as std
    import functools
    import random
    import optree
    import optree.dataclasses as odc
    import dc_impl
    fails = []
    if o['kind'] == 'dc':
        req = parse(o['req'])
        fields = [(str(n), i == '1', p == '1') for n, i, p in req[4:]]
        faulty = req[1] == '0' or req[2] == '1' or req[3] == '1' or any(p and not i for _, i, p in fields)
        try:
            (children, metadata), cls, ns = dc_impl.partition(req)
        except (TypeError, ValueError) as e:
            if not faulty:
                fails.append({'key': 'dc-rejected', 'what': f'valid layout rejected: {type(e).__name__}: {e}'})
            return fails
        except Exception as e:  # noqa: BLE001
            return [{'key': 'dc-exception', 'what': f'{type(e).__name__}: {e}'}]
        if faulty:
            return [{'key': 'dc-fault-accepted', 'what': 'a faulty declaration was accepted'}]
        want_children = [n for n, i, p in fields if p]
        want_md = [n for n, i, p in fields if not p and i]
        if children != want_children or metadata != want_md:
            fails.append({'key': 'dc-partition', 'what': f'children {children} / metadata {metadata}, expected {want_children} / {want_md}'})
        # instance with pytree values in the children
        vals = {n: ((j, [j + 1]) if p else j * 10) for j, (n, i, p) in enumerate(fields) if i}
        obj = cls(**vals)
        leaves, spec = optree.tree_flatten(obj, namespace=ns)
        want_leaves = [x for n in want_children for x in optree.tree_leaves(vals[n])]
        if leaves != want_leaves:
            fails.append({'key': 'dc-leaves', 'what': f'leaves {leaves}, expected {want_leaves} (pytree_node fields in declaration order)'})
        if optree.tree_leaves(obj) != [obj] or optree.tree_leaves(obj, namespace='some-other-ns') != [obj]:
            fails.append({'key': 'dc-namespace-leak', 'what': 'the dataclass is a node outside its namespace'})
        if spec.entries() != want_children:
            fails.append({'key': 'dc-entries', 'what': f'entries {spec.entries()} are not the children field names'})
        rebuilt = optree.tree_unflatten(spec, leaves)
        if type(rebuilt) is not cls or rebuilt != obj:
            fails.append({'key': 'dc-roundtrip', 'what': 'unflatten does not reconstruct an equal instance'})
        accs = optree.tree_accessors(obj, namespace=ns)
        for a, leaf in zip(accs, leaves):
            if a(obj) is not leaf and a(obj) != leaf:
                fails.append({'key': 'dc-accessor', 'what': f'accessor {a!r} does not reach its leaf'})
                break
        # the class is otherwise the one dataclasses.dataclass would produce
        ns_dict = {'__annotations__': {n: int for n, _, _ in fields}}
        seen_default = False
        for n, i, p in fields:
            kw = {'init': i}
            if not i or seen_default:
                kw['default'] = 0
                seen_default = seen_default or i
            ns_dict[n] = std.field(kw_only=True, **kw) if i else std.field(**kw)
        ref = std.dataclass(type(cls.__name__, (), ns_dict))
        sig = lambda c: [(f.name, f.init, f.kw_only, f.default is std.MISSING) for f in std.fields(c)]   # noqa: E731
        if sig(ref) != sig(cls):
            fails.append({'key': 'dc-differs-from-stdlib', 'what': f'fields differ from dataclasses.dataclass: {sig(cls)} vs {sig(ref)}'})
        if repr(ref(**vals)).split('(', 1)[1] != repr(obj).split('(', 1)[1]:
            fails.append({'key': 'dc-repr', 'what': 'repr differs from the stdlib dataclass'})
        # __post_init__ is re-run on unflatten
        calls = []
        ns2 = f'{ns}-pi'
        pi_dict = dict(ns_dict)
        for n, i, p in fields:
            kw = {'init': i, 'pytree_node': p}
            if not i:
                kw['default'] = 0
            pi_dict[n] = odc.field(kw_only=True, **kw) if i else odc.field(**kw)
        pi_dict['__post_init__'] = lambda self: calls.append(1)
        cls2 = odc.dataclass(type(cls.__name__ + 'P', (), pi_dict), namespace=ns2)
        o2 = cls2(**vals)
        n_before = len(calls)
        optree.tree_map(lambda x: x, o2, namespace=ns2)
        if len(calls) != n_before + 1:
            fails.append({'key': 'dc-post-init', 'what': f'__post_init__ ran {len(calls) - n_before} times on unflatten'})
    else:
        import optree.functools as of
        rng = random.Random(o['seed'])

        def f(*a, **k):
            return ('called', a, tuple(sorted(k.items())))

        def rand_tree(d=2):
            c = rng.random()
            if d == 0 or c < 0.4:
                return rng.randrange(100)
            if c < 0.7:
                return [rand_tree(d - 1) for _ in range(rng.randrange(0, 3))]
            return {rng.choice('abc'): rand_tree(d - 1) for _ in range(rng.randrange(0, 3))}
        args = [rand_tree() for _ in range(rng.randrange(0, 3))]
        # keyword names sometimes collide with the ones the nested partial binds ('z') and with call-time keywords
        kwargs = {k: rand_tree() for k in rng.sample(['p', 'q', 'r', 'z'], rng.randrange(0, 4))}
        call_args = [rng.randrange(100) for _ in range(rng.randrange(0, 2))]
        call_kw = {k: rng.randrange(100) for k in rng.sample(['p', 'z', 'w'], rng.randrange(0, 3))}
        inner = None
        ref_inner = f           # the same nesting built from functools.partial is the reference for calls
        c = rng.random()
        if c < 0.6:
            a0, z0 = rng.randrange(100), rng.randrange(100)
            if c < 0.25:
                inner, ref_inner = of.partial(f, a0, z=z0), functools.partial(f, a0, z=z0)
            elif c < 0.45:
                inner, ref_inner = functools.partial(f, a0, z=z0, p=z0 + 1), functools.partial(f, a0, z=z0, p=z0 + 1)
            else:
                inner, ref_inner = functools.partial(f, a0), functools.partial(f, a0)
            p = of.partial(inner, *args, **kwargs)
        else:
            p = of.partial(f, *args, **kwargs)
        want0 = functools.partial(ref_inner, *args, **kwargs)(*call_args, **call_kw)
        got0 = p(*call_args, **call_kw)
        if got0 != want0:
            fails.append({'key': 'partial-call-differs-from-functools', 'what': 'calling the partial differs from the same nesting of '
                          'functools.partial', 'got': repr(got0)[:200], 'want': repr(want0)[:200]})
        for ns in ('', 'a', 'whatever'):
            leaves, spec = optree.tree_flatten(p, namespace=ns)
            want = optree.tree_leaves((tuple(args), kwargs))
            if leaves != want:
                fails.append({'key': 'partial-leaves', 'what': f'namespace {ns!r}: leaves {leaves} != leaves of (args, keywords) {want}'})
            if spec.entries() != ['args', 'keywords']:
                fails.append({'key': 'partial-entries', 'what': f'entries {spec.entries()}'})
            if inner is not None and optree.tree_leaves(p, namespace=ns) != want:
                fails.append({'key': 'partial-merged', 'what': 'arguments of the nested partial leaked into the outer one'})
        mapped = optree.tree_map(lambda x: x + 1, p)
        if type(mapped) is not of.partial:
            fails.append({'key': 'partial-type', 'what': 'tree_map does not rebuild an optree.functools.partial'})
        else:
            margs = optree.tree_map(lambda x: x + 1, tuple(args))
            mkw = optree.tree_map(lambda x: x + 1, kwargs)
            want_call = functools.partial(ref_inner, *margs, **mkw)(*call_args, **call_kw)
            if mapped(*call_args, **call_kw) != want_call:
                fails.append({'key': 'partial-call', 'what': 'the rebuilt partial does not call the same function with the mapped arguments',
                              'got': repr(mapped(*call_args, **call_kw))[:200], 'want': repr(want_call)[:200]})
    return fails
