"""C19  optree dataclasses and optree partial are faithful pytree nodes."""

from __future__ import annotations

import itertools

from sexp import A, Atom, parse, render
from props.common import op

RULE = ('field layouts (declaration order, init / pytree_node flags exhaustive for <= 3 fields, sampled up to 6; per field kw_only, '
        'default / default_factory, inherited from a base dataclass) x decorator options (slots, frozen, kw_only, order; all 16 '
        'combinations on fixed layouts) x route (decorator, make_dataclass), '
        'decorated twice / empty namespace / non-class faults; instances with pytree field values; partials over '
        'partials with positional / keyword pytrees; distinct by request text; non-trivial = at least 2 fields')
SETUP_LINES = []
TEARDOWN_LINES = []
EXTRA_TRUST = ['dataclasses.dataclass itself is not modelled: the generated class is compared with the one the '
               'stdlib decorator produces (fields, init signature, eq, repr) by the implementation oracle']


def _opts(rng, via=None):
    pick = lambda pr: '1' if rng.random() < pr else '0'     # noqa: E731
    return [A('opts'), A(str(rng.randrange(2)) if via is None else via), A(pick(0.3)), A(pick(0.3)), A(pick(0.3)), A(pick(0.2))]


def _finish(flags, rng, opts):
    """(init, pytree) per field -> full field specs that the stdlib accepts: non-init fields carry a default, positional
    init fields with defaults come after those without; a prefix of the fields may be inherited from a base dataclass"""
    n = len(flags)
    n_inh = rng.randrange(0, n + 1) if n and rng.random() < 0.3 else 0
    all_kw = opts[4] == '1'
    seen_default = False
    out = []
    for j, (i, p) in enumerate(flags):
        kwonly = rng.random() < 0.4
        dflt = rng.choice([0, 0, 1, 2])
        if i == '0':
            dflt = dflt or rng.choice([1, 2])
        elif not (kwonly or all_kw):
            if seen_default:
                dflt = dflt or 1
            seen_default = seen_default or dflt != 0
        out.append([f'f{j}', A(i), A(p), A('1' if kwonly else '0'), dflt, A('1' if j < n_inh else '0')])
    return out


def layouts(tier, rng):
    flags = [(i, p) for i in '10' for p in '10']
    out = []
    for n in range(0, 4):
        for combo in itertools.product(flags, repeat=n):
            opts = _opts(rng)
            out.append((opts, _finish(list(combo), rng, opts)))
    # every combination of the decorator options on a few fixed layouts, both routes
    for via in '01':
        for bits in itertools.product('01', repeat=4):
            opts = [A('opts'), A(via), *[A(b) for b in bits]]
            for combo in ([('1', '1'), ('1', '0'), ('0', '0')], [('1', '0'), ('1', '1'), ('1', '1')]):
                if tier == 'quick' and rng.random() < 0.5:
                    continue
                out.append((opts, _finish(combo, rng, opts)))
    extra = 80 if tier == 'quick' else 2500
    for _ in range(extra):
        n = rng.randrange(4, 7)
        opts = _opts(rng)
        out.append((opts, _finish([(rng.choice('1110'), rng.choice('110')) for _ in range(n)], rng, opts)))
    return out


def generate(gen, tier):
    rng = gen.rng
    cases = []
    for opts, fields in layouts(tier, rng):
        for faults in (('1', '0', '0'), ('1', '1', '0'), ('1', '0', '1'), ('0', '0', '0')):
            if faults != ('1', '0', '0') and rng.random() < 0.8:
                continue
            req = [A('dcpart'), A(faults[0]), A(faults[1]), A(faults[2]), opts, *fields]
            cases.append({'lines': [render(req)], 'o': {'kind': 'dc', 'req': render(req)}})
    n = 60 if tier == 'quick' else 1500
    for _ in range(n):
        cases.append({'lines': [], 'o': {'kind': 'partial', 'seed': rng.randrange(10**6)}})
    # class bodies with the pseudo-fields dataclasses keeps next to the real ones (ClassVar, InitVar), KW_ONLY
    # sentinels and plain-dataclass bases: written as source text, oracle only
    for _ in range(50 if tier == 'quick' else 1500):
        cases.append({'lines': [], 'o': {'kind': 'dcx', 'seed': rng.randrange(10**6)}})
    # field(metadata=...) with user metadata: one mapping object shared by several fields, fresh dicts, read-only
    # mappings, None - the pytree_node flag of a field is the one it was declared with
    for _ in range(40 if tier == 'quick' else 1200):
        cases.append({'lines': [], 'o': {'kind': 'dcmeta', 'seed': rng.randrange(10**6)}})
    return cases


def nontrivial(case):
    if case['o']['kind'] in ('partial', 'dcx', 'dcmeta'):
        return True
    return len(parse(case['o']['req'])) >= 7


def distribution(cases):
    d = {}
    for c in cases:
        d[c['o']['kind']] = d.get(c['o']['kind'], 0) + 1
    return {'case_kinds': d}


def _dcx(seed):
    """an optree dataclass whose body also has ClassVar / InitVar pseudo-fields, a KW_ONLY sentinel and possibly a plain
    dataclass base: the children are the values of the pytree_node fields among dataclasses.fields(cls) - the real
    fields only - in declaration order"""
    import dataclasses as std
    import random
    import optree
    import optree.dataclasses as odc
    rng = random.Random(seed)
    fails = []
    ns = f'dcx-{seed}'
    kinds = ['field', 'field', 'meta', 'classvar', 'classvar-novalue', 'initvar', 'kwonly-sentinel']

    def body(names, allow_sentinel):
        lines, seen_default, kw = [], False, False
        for n in names:
            k = rng.choice(kinds if allow_sentinel else kinds[:-1])
            if k == 'field':
                d = rng.random() < 0.3 or (seen_default and not kw)
                lines.append(f'    {n}: int' + (f' = {len(lines) + 1}' if d else ''))
                seen_default = seen_default or d
            elif k == 'meta':
                d = rng.random() < 0.3 or (seen_default and not kw)
                lines.append(f'    {n}: int = FIELD(pytree_node=False' + (f', default={len(lines) + 10}' if d else '') + ')')
                seen_default = seen_default or d
            elif k == 'classvar':
                lines.append(f'    {n}: ClassVar[int] = {len(lines) + 100}')
            elif k == 'classvar-novalue':
                lines.append(f'    {n}: ClassVar[int]')
            elif k == 'initvar':
                lines.append(f'    {n}: InitVar[int] = {len(lines) + 1000}')
                seen_default = True
            elif not kw:
                lines.append('    _: KW_ONLY')
                kw = True
        return lines or ['    pass']
    names = [f'g{i}' for i in range(rng.choice([2, 3, 4, 5]))]
    split = rng.randrange(0, len(names)) if rng.random() < 0.4 else 0
    src = ['import dataclasses', 'from dataclasses import InitVar, KW_ONLY', 'from typing import ClassVar']
    base = ''
    if split:
        plain = rng.random() < 0.5
        src += ['@dataclasses.dataclass' if plain else '@ODC(namespace=NS + "-base")', 'class Base:']
        src += [ln.replace('FIELD(pytree_node=False', 'dataclasses.field(' if plain else 'FIELD(pytree_node=False').replace('field(, ', 'field(')
                for ln in body(names[:split], False)]
        base = '(Base)'
    src += ['@ODC(namespace=NS)', f'class Gen{base}:'] + body(names[split:], True)
    src += ['    def __post_init__(self, *initvars):', '        self.seen_initvars = initvars']
    env = {'ODC': odc.dataclass, 'FIELD': odc.field, 'NS': ns}
    text = '\n'.join(src)
    # (dont_inherit: this module's `from __future__ import annotations` would turn the annotations into strings)
    code = compile(text, '<dcx>', 'exec', flags=0, dont_inherit=True)
    # the same source under the stdlib decorator: a declaration dataclasses itself rejects is not a case
    std_env = {'ODC': lambda namespace=None: std.dataclass, 'NS': ns,
               'FIELD': lambda pytree_node=True, **kw: std.field(**kw)}
    try:
        exec(code, std_env)     # noqa: S102
    except Exception:           # noqa: BLE001
        return []
    try:
        exec(code, env)     # noqa: S102
    except Exception as e:  # noqa: BLE001
        return [{'key': 'dcx-declaration-raises', 'what': f'a declaration that dataclasses.dataclass accepts is rejected: {type(e).__name__}: {e}',
                 'source': text}]
    cls = env['Gen']
    real = std.fields(cls)
    want_children = [f.name for f in real if f.metadata.get('pytree_node', True)]
    kwargs = {f.name: (j, [j]) if f.metadata.get('pytree_node', True) else j * 7
              for j, f in enumerate(real) if f.init and (f.default is std.MISSING or rng.random() < 0.5)}
    try:
        obj = cls(**kwargs)
    except Exception as e:  # noqa: BLE001
        return [{'key': 'dcx-construct-raises', 'what': f'{type(e).__name__}: {e}', 'source': text}]
    try:
        leaves, spec = optree.tree_flatten(obj, namespace=ns)
        rebuilt = optree.tree_unflatten(spec, leaves)
        mapped = optree.tree_map(lambda x: x, obj, namespace=ns)
    except Exception as e:  # noqa: BLE001
        return [{'key': 'dcx-raises', 'what': f'flatten / unflatten / tree_map raised {type(e).__name__}: {e}', 'source': text}]
    want_leaves = [x for n in want_children for x in optree.tree_leaves(getattr(obj, n))]
    if leaves != want_leaves or spec.entries() != want_children or spec.num_children != len(want_children):
        fails.append({'key': 'dcx-partition', 'what': f'children {spec.entries()} with leaves {leaves}: expected the pytree_node fields among '
                      f'dataclasses.fields(cls) in declaration order, {want_children} with leaves {want_leaves}', 'source': text})
    for other, name in ((rebuilt, 'tree_unflatten'), (mapped, 'tree_map(identity)')):
        if type(other) is not cls or any(getattr(other, f.name) != getattr(obj, f.name) for f in real) \
                or other.seen_initvars != obj.seen_initvars:
            fails.append({'key': 'dcx-roundtrip', 'what': f'{name} does not rebuild the object the constructor would build from the same field values '
                          f'(fields or the InitVar values seen by __post_init__ differ)', 'source': text})
    return fails


def _dcmeta(seed):
    import dataclasses as std
    import random
    import types
    import optree
    import optree.dataclasses as odc
    rng = random.Random(seed)
    ns = f'dcmeta-{seed}'
    n = rng.choice([2, 3, 4, 5])
    names = [f'm{i}' for i in range(n)]
    shared = {'doc': 'shared', 'unit': 3}
    decl, body, given = {}, {'__annotations__': {}}, {}
    for i, name in enumerate(names):
        flag = rng.choice([None, True, False])
        how = rng.choice(['shared', 'shared', 'fresh', 'none', 'proxy', 'shared-proxy'])
        md = {'shared': shared, 'fresh': {'doc': name}, 'none': None, 'proxy': types.MappingProxyType({'doc': name}),
              'shared-proxy': types.MappingProxyType(shared)}[how]
        kw = {'default': i, 'metadata': md}
        if flag is not None:
            kw['pytree_node'] = flag
        body['__annotations__'][name] = int
        body[name] = odc.field(**kw)
        decl[name] = True if flag is None else flag
        given[name] = None if md is None else dict(md)
    cls = odc.dataclass(type('Meta', (), body), namespace=ns)
    fails = []
    obj = cls(**{name: [10 * i, (i,)] if decl[name] else 7 * i for i, name in enumerate(names)})
    want = [getattr(obj, name) for name in names if decl[name]]
    leaves_of = lambda xs: [y for x in xs for y in optree.tree_leaves(x)]      # noqa: E731
    got = optree.tree_leaves(obj, namespace=ns)
    if got != leaves_of(want):
        fails.append({'key': 'dcmeta-children', 'what': f'declared pytree_node flags {decl} but the leaves are {got!r}'})
    mapped = optree.tree_map(lambda x: x + 1, obj, namespace=ns)
    for i, name in enumerate(names):
        a, b = getattr(obj, name), getattr(mapped, name)
        if decl[name] and b == a:
            fails.append({'key': 'dcmeta-map', 'what': f'field {name} is declared a pytree node but tree_map did not reach it'})
        if not decl[name] and b != a:
            fails.append({'key': 'dcmeta-map', 'what': f'field {name} is declared metadata but tree_map changed it'})
    for f in std.fields(cls):
        if f.metadata.get('pytree_node') != decl[f.name]:
            fails.append({'key': 'dcmeta-flag', 'what': f'field {f.name}: metadata[pytree_node] = {f.metadata.get("pytree_node")!r}, declared {decl[f.name]}'})
        if given[f.name] is not None and any(f.metadata.get(k) != v for k, v in given[f.name].items() if k != 'pytree_node'):
            fails.append({'key': 'dcmeta-user-metadata', 'what': f'field {f.name}: user metadata lost'})
    return fails


def oracle(impl, o):
    if o.get('kind') == 'dcx':
        return _dcx(o['seed'])
    if o.get('kind') == 'dcmeta':
        return _dcmeta(o['seed'])
    import dataclasses as std
    import functools
    import inspect
    import random
    import optree
    import optree.dataclasses as odc
    import dc_impl
    fails = []
    if o['kind'] == 'dc':
        req = parse(o['req'])
        is_class, already, ns_empty, opts, fields = dc_impl.parse_req(req)
        route = 'make_dataclass' if opts['via'] == 1 else 'decorator'
        faulty = (not is_class) or already or ns_empty or any(p and not i for _, i, p, _, _, _ in fields)
        try:
            (children, metadata), cls, ns = dc_impl.partition(req)
        except (TypeError, ValueError) as e:
            if not faulty:
                fails.append({'key': f'dc-rejected-{route}', 'what': f'valid declaration rejected ({route}, options '
                              f'{ {k: v for k, v in opts.items() if v and k != "via"} }): {type(e).__name__}: {e}'})
            return fails
        except Exception as e:  # noqa: BLE001
            return [{'key': 'dc-exception', 'what': f'{type(e).__name__}: {e}'}]
        if faulty:
            return [{'key': 'dc-fault-accepted', 'what': 'a faulty declaration was accepted'}]
        want_children = [n for n, i, p, _, _, _ in fields if p]
        want_md = [n for n, i, p, _, _, _ in fields if not p and i]
        if children != want_children or metadata != want_md:
            fails.append({'key': f'dc-partition-{route}', 'what': f'{route}: children {children} / metadata {metadata}, expected '
                          f'{want_children} / {want_md} (pytree_node fields / other init fields, declaration order)'})
            return fails
        # instance with pytree values in the children; fields with defaults are sometimes left to their default
        rng = random.Random(len(o['req']))
        vals = {n: ((j, [j + 1]) if p else j * 10) for j, (n, i, p, _, d, _) in enumerate(fields)
                if i and (d == 0 or rng.random() < 0.6)}
        obj = cls(**vals)
        full = {n: getattr(obj, n) for n, *_ in fields}
        leaves, spec = optree.tree_flatten(obj, namespace=ns)
        want_leaves = [x for n in want_children for x in optree.tree_leaves(full[n])]
        if leaves != want_leaves:
            fails.append({'key': 'dc-leaves', 'what': f'leaves {leaves}, expected {want_leaves} (pytree_node fields in declaration order)'})
        if optree.tree_leaves(obj) != [obj] or optree.tree_leaves(obj, namespace='some-other-ns') != [obj]:
            fails.append({'key': 'dc-namespace-leak', 'what': 'the dataclass is a node outside its namespace'})
        if spec.entries() != want_children:
            fails.append({'key': 'dc-entries', 'what': f'entries {spec.entries()} are not the children field names'})
        rebuilt = optree.tree_unflatten(spec, leaves)
        if type(rebuilt) is not cls or rebuilt != obj or type(rebuilt) is not type(obj):
            fails.append({'key': 'dc-roundtrip', 'what': f'unflatten does not reconstruct an equal instance of the same class '
                          f'({route}, options { {k: v for k, v in opts.items() if v and k != "via"} }): '
                          f'{type(rebuilt).__qualname__}@{id(type(rebuilt)):#x} vs {cls.__qualname__}@{id(cls):#x}'})
        mapped = optree.tree_map(lambda x: x, obj, namespace=ns)
        if type(mapped) is not cls or mapped != obj:
            fails.append({'key': 'dc-map-identity', 'what': 'tree_map(identity) does not give back an equal instance of the class'})
        accs = optree.tree_accessors(obj, namespace=ns)
        for a, leaf in zip(accs, leaves):
            if a(obj) is not leaf and a(obj) != leaf:
                fails.append({'key': 'dc-accessor', 'what': f'accessor {a!r} does not reach its leaf'})
                break
        # the class is otherwise the one dataclasses would produce from the same declaration
        ref, _ = dc_impl.build_class(req, module='std')
        sig = lambda c: [(f.name, f.init, f.kw_only, f.default is std.MISSING, f.default_factory is std.MISSING,   # noqa: E731
                          f.repr, f.compare) for f in std.fields(c)]
        if sig(ref) != sig(cls):
            fails.append({'key': f'dc-differs-from-stdlib-{route}', 'what': f'{route}: fields differ from what dataclasses produces: '
                          f'{sig(cls)} vs {sig(ref)}'})
        robj = ref(**vals)
        if repr(robj).split('(', 1)[1] != repr(obj).split('(', 1)[1]:
            fails.append({'key': 'dc-repr', 'what': 'repr differs from the stdlib dataclass'})
        traits = lambda c, x: (hasattr(c, '__slots__') and '__dict__' not in dir(x), c.__dataclass_params__.frozen,   # noqa: E731
                               c.__dataclass_params__.order, c.__dataclass_params__.eq, getattr(c, '__match_args__', None),
                               str(inspect.signature(c)))
        if traits(ref, robj) != traits(cls, obj):
            fails.append({'key': f'dc-traits-differ-from-stdlib-{route}', 'what': f'{route}: slots / frozen / order / eq / '
                          f'__match_args__ / signature differ: {traits(cls, obj)} vs {traits(ref, robj)}'})
        # __post_init__ is re-run on unflatten
        calls = []
        try:
            cls2, ns2 = dc_impl.build_class(req, extra={'__post_init__': lambda self: calls.append(1)})
        except Exception as e:  # noqa: BLE001
            fails.append({'key': 'dc-post-init-class', 'what': f'{type(e).__name__}: {e}'})
            return fails
        o2 = cls2(**vals)
        n_before = len(calls)
        optree.tree_map(lambda x: x, o2, namespace=ns2)
        if len(calls) != n_before + 1:
            fails.append({'key': 'dc-post-init', 'what': f'__post_init__ ran {len(calls) - n_before} times on unflatten'})
    else:
        import optree.functools as of
        rng = random.Random(o['seed'])

        def f(*a, **k):
            return ('called', a, tuple(sorted(k.items())))

        def rand_tree(d=2):
            c = rng.random()
            if d == 0 or c < 0.4:
                return rng.randrange(100)
            if c < 0.7:
                return [rand_tree(d - 1) for _ in range(rng.randrange(0, 3))]
            return {rng.choice('abc'): rand_tree(d - 1) for _ in range(rng.randrange(0, 3))}
        args = [rand_tree() for _ in range(rng.randrange(0, 3))]
        # keyword names sometimes collide with the ones the nested partial binds ('z') and with call-time keywords
        kwargs = {k: rand_tree() for k in rng.sample(['p', 'q', 'r', 'z'], rng.randrange(0, 4))}
        call_args = [rng.randrange(100) for _ in range(rng.randrange(0, 2))]
        call_kw = {k: rng.randrange(100) for k in rng.sample(['p', 'z', 'w'], rng.randrange(0, 3))}
        inner = None
        ref_inner = f           # the same nesting built from functools.partial is the reference for calls
        c = rng.random()
        if c < 0.6:
            a0, z0 = rng.randrange(100), rng.randrange(100)
            if c < 0.25:
                inner, ref_inner = of.partial(f, a0, z=z0), functools.partial(f, a0, z=z0)
            elif c < 0.45:
                inner, ref_inner = functools.partial(f, a0, z=z0, p=z0 + 1), functools.partial(f, a0, z=z0, p=z0 + 1)
            else:
                inner, ref_inner = functools.partial(f, a0), functools.partial(f, a0)
            p = of.partial(inner, *args, **kwargs)
        else:
            p = of.partial(f, *args, **kwargs)
        want0 = functools.partial(ref_inner, *args, **kwargs)(*call_args, **call_kw)
        got0 = p(*call_args, **call_kw)
        if got0 != want0:
            fails.append({'key': 'partial-call-differs-from-functools', 'what': 'calling the partial differs from the same nesting of '
                          'functools.partial', 'got': repr(got0)[:200], 'want': repr(want0)[:200]})
        for ns in ('', 'a', 'whatever'):
            leaves, spec = optree.tree_flatten(p, namespace=ns)
            want = optree.tree_leaves((tuple(args), kwargs))
            if leaves != want:
                fails.append({'key': 'partial-leaves', 'what': f'namespace {ns!r}: leaves {leaves} != leaves of (args, keywords) {want}'})
            if spec.entries() != ['args', 'keywords']:
                fails.append({'key': 'partial-entries', 'what': f'entries {spec.entries()}'})
            if inner is not None and optree.tree_leaves(p, namespace=ns) != want:
                fails.append({'key': 'partial-merged', 'what': 'arguments of the nested partial leaked into the outer one'})
        mapped = optree.tree_map(lambda x: x + 1, p)
        if type(mapped) is not of.partial:
            fails.append({'key': 'partial-type', 'what': 'tree_map does not rebuild an optree.functools.partial'})
        else:
            margs = optree.tree_map(lambda x: x + 1, tuple(args))
            mkw = optree.tree_map(lambda x: x + 1, kwargs)
            want_call = functools.partial(ref_inner, *margs, **mkw)(*call_args, **call_kw)
            if mapped(*call_args, **call_kw) != want_call:
                fails.append({'key': 'partial-call', 'what': 'the rebuilt partial does not call the same function with the mapped arguments',
                              'got': repr(mapped(*call_args, **call_kw))[:200], 'want': repr(want_call)[:200]})
    return fails
