"""C20  tree_ravel and its unravel function are mutually inverse."""

from __future__ import annotations

from sexp import A, Atom, parse, render
from props.common import op

RULE = ('lists / pytrees of arrays of rank 0-3 incl. zero-size and scalar shapes, dtypes from bool / ints / floats / '
        'complex (values small enough to be representable everywhere), x backend in {numpy, jax, torch}; the numpy '
        'back-end also goes through the model; distinct by request text; non-trivial = at least two leaves')
SETUP_LINES = []
TEARDOWN_LINES = []
EXTRA_TRUST = ['NumPy / JAX / PyTorch (promotion tables, split, reshape, astype) are not modelled: the promoted dtype is '
               'taken from numpy.result_type and element casts are the identity on the generated values']
DT = ['bool', 'int8', 'int16', 'int32', 'int64', 'float32', 'float64', 'complex64', 'complex128']


def rand_arr(rng, dts):
    rank = rng.choice([0, 1, 1, 2, 2, 3])
    shape = [rng.choice([0, 1, 2, 3]) if rng.random() < 0.85 else 0 for _ in range(rank)]
    n = 1
    for s in shape:
        n *= s
    dt = rng.choice(dts)
    data = [rng.randrange(0, 2) if dt == 0 else rng.randrange(0, 48) if dt >= 7 else rng.randrange(0, 6) for _ in range(n)]
    return [A('arr'), shape, dt, data]


def generate(gen, tier):
    import numpy as np
    rng = gen.rng
    n = 250 if tier == 'quick' else 6000
    cases = []
    np_dt = [np.bool_, np.int8, np.int16, np.int32, np.int64, np.float32, np.float64, np.complex64, np.complex128]
    for _ in range(n):
        style = rng.random()
        if style < 0.4:
            dts = [rng.randrange(9)]
        elif style < 0.7:
            dts = rng.sample(range(9), 2)
        else:
            dts = list(range(9))
        k = rng.choice([0, 1, 2, 2, 3, 4, 5])
        arrs = [rand_arr(rng, dts) for _ in range(k)]
        to = 6
        if arrs:
            to = np_dt.index(np.result_type(*[np_dt[a[2]] for a in arrs]).type)
        lines = [op('ravel', to, 6, *arrs)]
        cases.append({'lines': lines, 'o': {'arrs': render(arrs), 'nest': rng.randrange(3)}})
    # values that do not fit the narrowest dtype of the tree, weakly typed leaves (oracle only: no model lines)
    for _ in range(60 if tier == 'quick' else 1500):
        cases.append({'lines': [], 'o': {'wide': rng.randrange(10**9)}})
    return cases


def nontrivial(case):
    if 'wide' in case['o']:
        return True
    return len(parse(case['o']['arrs'])) >= 2


def distribution(cases):
    ranks, dtypes, zero = {}, {}, 0
    n_wide = sum(1 for c in cases if 'wide' in c['o'])
    cases = [c for c in cases if 'wide' not in c['o']]
    for c in cases:
        for a in parse(c['o']['arrs']):
            r = len(a[1])
            ranks[r] = ranks.get(r, 0) + 1
            dtypes[DT[int(a[2])]] = dtypes.get(DT[int(a[2])], 0) + 1
            zero += any(int(x) == 0 for x in a[1])
    return {'ranks': ranks, 'dtypes': dtypes, 'zero_size_leaves': zero, 'wide_value_cases': n_wide}


def _wide(o):
    """trees mixing narrow dtypes with values that only fit the wider ones, Python scalars and (jax) weakly typed
    arrays: the round trip must preserve every value and dtype, the flat vector must hold the leaf values"""
    import random
    import warnings
    import numpy as np
    import optree
    rng = random.Random(o['wide'])
    fails = []
    narrow_int = [np.int8, np.uint8, np.int16]
    narrow_flt = [np.float16, np.float32]

    cat = rng.choice(['int', 'float'])

    def np_leaves():
        # one category per tree: JAX and PyTorch promote an integer next to a float16 to float16 (values may not fit:
        # that is the backend's promotion rule, not a conversion error)
        kind = cat
        out = []
        if kind in ('int', 'mixed'):
            out.append(np.array([rng.randrange(-5, 6) for _ in range(rng.choice([1, 2, 3]))], dtype=rng.choice(narrow_int[:1] + narrow_int[2:])))
            out.append(np.array(rng.choice([1000, -3000, 70000, 300]), dtype=rng.choice([np.int32, np.int64])))
        if kind in ('float', 'mixed'):
            out.append(np.array([0.5, -1.25][:rng.choice([1, 2])], dtype=rng.choice(narrow_flt)))
            out.append(np.array(rng.choice([0.1, 1e6 + 0.5, 65537.0]), dtype=np.float64 if rng.random() < 0.5 else np.float32))
        rng.shuffle(out)
        return out

    def vals(x):
        return [complex(v) for v in np.ravel(np.asarray(x)).tolist()]

    def check(name, ravel, tree, to_np, canon=None):
        canon = canon or to_np
        with warnings.catch_warnings():
            warnings.simplefilter('ignore')
            try:
                flat, unravel = ravel(tree)
                back = unravel(flat)
            except Exception as e:  # noqa: BLE001
                fails.append({'key': f'{name}-wide-raises', 'what': f'{name}: tree_ravel / unravel raised {type(e).__name__}: {e}', 'tree': repr(tree)[:200]})
                return
            order = optree.tree_leaves(tree)
            want = [v for x in order for v in vals(canon(x))]
            got = vals(to_np(flat))
            if got != want:
                fails.append({'key': f'{name}-wide-flat-values', 'what': f'{name}: the flat array does not hold the values of the leaves (a value was narrowed)',
                              'tree': repr(tree)[:200], 'flat': repr(got)[:200]})
            for i, (x, y) in enumerate(zip(optree.tree_leaves(back), order)):
                xn, yn = to_np(x), canon(y)
                if vals(xn) != vals(yn) or xn.shape != np.asarray(yn).shape or (hasattr(y, 'dtype') and xn.dtype != yn.dtype):
                    fails.append({'key': f'{name}-wide-roundtrip', 'what': f'{name}: leaf {i} of unravel(ravel(t)) differs from the original (values / shape / dtype)',
                                  'tree': repr(tree)[:200], 'got': repr(xn)[:100], 'want': repr(yn)[:100]})
                    break
    leaves = np_leaves()
    from optree.integration import numpy as onp
    check('numpy', onp.tree_ravel, {'a': leaves[0], 'b': tuple(leaves[1:])}, np.asarray)
    try:
        import torch
        from optree.integration import torch as otorch
        tl = [torch.from_numpy(np.ascontiguousarray(a)) for a in leaves if a.dtype != np.uint16]
        check('torch', otorch.tree_ravel, [tl[0], {'k': tl[1:]}], lambda t: t.numpy())
    except ImportError:
        pass
    try:
        import jax
        import jax.numpy as jnp
        from optree.integration import jax as ojax
        x64 = bool(jax.config.jax_enable_x64)
        jl = [jnp.asarray(a) for a in leaves if x64 or a.dtype not in (np.int64, np.float64)]
        # weakly typed leaves: arrays made from Python scalars without a dtype, and bare Python scalars
        if cat == 'int':
            weak = [jnp.asarray(rng.choice([1000, 300, -3000])), rng.choice([1000, 70000]), jnp.full((2,), 300)]
            narrow = jnp.asarray(np.array([1, -2, 3], dtype=rng.choice([np.int8, np.int16])))
        else:
            weak = [jnp.asarray(rng.choice([0.1, 65537.0])), rng.choice([0.1, 2.5]), jnp.full((2,), 0.1)]
            narrow = jnp.asarray(np.array([0.5, -1.25], dtype=np.float16))
        extra = rng.sample(weak, rng.choice([1, 2]))
        tree = [narrow, *extra] + (jl[:1] if rng.random() < 0.5 and jl else [])
        rng.shuffle(tree)
        # a leaf's own value is what JAX makes of it on its own (a Python float is a float32 without x64)
        check('jax', ojax.tree_ravel, tree, np.asarray, canon=lambda x: np.asarray(jnp.asarray(x)))
    except ImportError:
        pass
    return fails


def oracle(impl, o):
    import warnings
    import numpy as np
    import optree
    import ravel_impl
    if 'wide' in o:
        return _wide(o)
    fails = []
    arrs = parse(o['arrs'])
    np_leaves = [ravel_impl.mk(a) for a in arrs]

    def nest(leaves):
        if o['nest'] == 0 or not leaves:
            return list(leaves)
        if o['nest'] == 1:
            return {'b': tuple(leaves[:1]), 'a': [leaves[1:], None]}
        return (leaves[0], {'k': leaves[1:]})

    backends = []
    from optree.integration import numpy as onp
    backends.append(('numpy', onp.tree_ravel, np_leaves, np.asarray, lambda a: a.dtype, np.concatenate,
                     lambda a, dt: a.astype(dt)))
    try:
        import torch
        from optree.integration import torch as otorch
        t_leaves = [torch.from_numpy(np.ascontiguousarray(a)) for a in np_leaves]
        # non-contiguous tensors too: the same values behind permuted strides
        t_leaves = [t.transpose(0, -1).contiguous().transpose(0, -1) if t.ndim >= 2 and not a.flags['C_CONTIGUOUS'] else t
                    for t, a in zip(t_leaves, np_leaves)]
        backends.append(('torch', otorch.tree_ravel, t_leaves, lambda t: t.numpy(), lambda a: a.dtype,
                         torch.cat, lambda a, dt: a.to(dt)))
    except Exception:  # noqa: BLE001
        pass
    try:
        import jax
        import jax.numpy as jnp
        from optree.integration import jax as ojax
        j_leaves = [jnp.asarray(a) for a in np_leaves if a.dtype not in (np.int64, np.float64, np.complex128) or jax.config.jax_enable_x64]
        if len(j_leaves) == len(np_leaves):
            backends.append(('jax', ojax.tree_ravel, j_leaves, np.asarray, lambda a: a.dtype, jnp.concatenate,
                             lambda a, dt: a.astype(dt)))
    except Exception:  # noqa: BLE001
        pass
    for name, ravel, leaves, to_np, dtype_of, cat, astype in backends:
        tree = nest(leaves)
        with warnings.catch_warnings():
            warnings.simplefilter('ignore')
            try:
                flat, unravel = ravel(tree)
            except Exception as e:  # noqa: BLE001
                fails.append({'key': f'{name}-ravel-raises', 'what': f'{name}: tree_ravel raised {type(e).__name__}: {e}'})
                continue
            order = optree.tree_leaves(tree)
            fnp = to_np(flat)
            if fnp.ndim != 1:
                fails.append({'key': f'{name}-flat-rank', 'what': f'{name}: result is not 1-D'})
                continue
            want = np.concatenate([np.ravel(to_np(x)).astype(fnp.dtype) for x in order]) if order else np.zeros(0)
            if fnp.shape != want.shape or not np.array_equal(fnp, want):
                fails.append({'key': f'{name}-not-concatenation', 'what': f'{name}: flat array is not the concatenation of the raveled leaves in leaf order'})
            if order:
                import functools
                promoted = functools.reduce(lambda a, b: np.promote_types(a, b), [to_np(x).dtype for x in order]) \
                    if name == 'numpy' else None
                if promoted is not None and fnp.dtype != np.result_type(*[to_np(x) for x in order]):
                    fails.append({'key': f'{name}-dtype', 'what': f'{name}: flat dtype {fnp.dtype} is not the promoted dtype'})
            # unravel(ravel(t)) == t
            try:
                back = unravel(flat)
            except Exception as e:  # noqa: BLE001
                fails.append({'key': f'{name}-unravel-raises', 'what': f'{name}: unravel(ravel(t)) raised {type(e).__name__}: {e}'})
                continue
            if optree.tree_structure(back) != optree.tree_structure(tree):
                fails.append({'key': f'{name}-structure', 'what': f'{name}: unravel(ravel(t)) has a different structure'})
            else:
                for i, (x, y) in enumerate(zip(optree.tree_leaves(back), order)):
                    xn, yn = to_np(x), to_np(y)
                    if xn.shape != yn.shape or xn.dtype != yn.dtype or not np.array_equal(xn, yn):
                        fails.append({'key': f'{name}-unravel-ravel', 'what': f'{name}: leaf {i} of unravel(ravel(t)) differs in shape / dtype / values',
                                      'got': f'{xn.shape} {xn.dtype}', 'want': f'{yn.shape} {yn.dtype}'})
                        break
                # ravel(unravel(v)) == v for another array of the same length and dtype
                v = flat + 1 if fnp.dtype != np.bool_ else flat
                try:
                    again, _ = ravel(unravel(v))
                    if not np.array_equal(to_np(again), to_np(v)) or to_np(again).dtype != to_np(v).dtype:
                        if all(to_np(y).dtype == fnp.dtype for y in order) or fnp.dtype == np.bool_:
                            fails.append({'key': f'{name}-ravel-unravel', 'what': f'{name}: ravel(unravel(v)) != v'})
                except Exception as e:  # noqa: BLE001
                    fails.append({'key': f'{name}-ravel-unravel-raises', 'what': f'{name}: ravel(unravel(v)) raised {type(e).__name__}: {e}'})
            # rejections
            longer = cat([flat, flat[:1]]) if fnp.size else cat([flat, astype(to_np(flat) if name == 'numpy' else flat, dtype_of(flat))]) if False else None
            try:
                bad = cat([flat, flat]) if fnp.size else None
                if bad is not None:
                    unravel(bad)
                    fails.append({'key': f'{name}-wrong-shape-accepted', 'what': f'{name}: unravel accepted an array of the wrong length'})
            except ValueError:
                pass
            except Exception as e:  # noqa: BLE001
                fails.append({'key': f'{name}-wrong-shape-error', 'what': f'{name}: wrong length raised {type(e).__name__}'})
            mixed = len({str(to_np(y).dtype) for y in order}) > 1
            if mixed and fnp.size:
                try:
                    if name == 'torch':
                        import torch
                        other = astype(flat, torch.int32 if flat.dtype == torch.float32 else torch.float32)
                    else:
                        other = astype(flat, np.int32 if str(fnp.dtype) == 'float32' else np.float32)
                    unravel(other)
                    fails.append({'key': f'{name}-wrong-dtype-accepted', 'what': f'{name}: leaves had mixed dtypes but unravel accepted an array of another dtype'})
                except ValueError:
                    pass
                except Exception as e:  # noqa: BLE001
                    fails.append({'key': f'{name}-wrong-dtype-error', 'what': f'{name}: wrong dtype raised {type(e).__name__}: {e}'})
    return fails
