"""C01  Flatten then unflatten reconstructs the same tree."""

from __future__ import annotations

from sexp import A, parse, render
from props.common import has_internal_node, in_cfg, op, tree_distribution

RULE = ('random pytrees (all node kinds, key styles, option grid) from VERIF_SEED; distinct by request text; '
        'non-trivial = the tree has at least one internal node')


def _generate_model_cases(gen, tier):
    n = 400 if tier == 'quick' else 12000
    cases = []
    for i in range(n):
        depth = gen.rng.choice([2, 3, 3, 4, 5] if tier == 'quick' else [2, 3, 4, 5, 6, 7])
        t = gen.tree(depth=depth, width=gen.rng.choice([3, 4, 6]))
        cfg = gen.cfg()
        ts, cs = render(t), render(cfg)
        cases.append({
            'lines': [op('flatten', cfg, t), op('roundtrip', cfg, t)],
            'o': {'cfg': cs, 'tree': ts},
        })
    return cases


def generate(gen, tier):
    cases = _generate_model_cases(gen, tier)
    # order-free stream: key sets outside the model's key universe (props/exotic.py); oracle only, no model lines
    n = 120 if tier == 'quick' else 3000
    for _ in range(n):
        cases.append({'lines': [], 'o': {'exotic': gen.rng.randrange(10**9)}})
    return cases


def nontrivial(case):
    if 'exotic' in case['o']:
        return True
    return has_internal_node(parse(case['o']['tree']))


def distribution(cases):
    n_exotic = sum(1 for c in cases if 'exotic' in c['o'])
    cases = [c for c in cases if 'exotic' not in c['o']]
    d0 = _distribution(cases)
    d0['exotic_key_cases'] = n_exotic
    return d0


def _distribution(cases):
    return tree_distribution(cases)


def oracle(impl, o):
    if 'exotic' in o:
        import optree as _optree
        from props import exotic
        return exotic.check_C01(_optree, o['exotic'])
    import optree
    from universe import Lf
    u = impl.u
    fails = []
    tree = u.obj(parse(o['tree']))
    want = render(u.enc_obj(tree))
    with in_cfg(impl, o['cfg']) as kw:
        try:
            leaves, spec = optree.tree_flatten(tree, **kw)
        except Exception:
            return []            # C01 is about trees that flatten
        try:
            rebuilt = optree.tree_unflatten(spec, leaves)
        except Exception as e:
            return [{'key': 'unflatten-raises', 'what': f'unflatten of the flatten result raised {type(e).__name__}: {e}'}]
        got = render(u.enc_obj(rebuilt))
        if got != want:
            fails.append({'key': 'rebuilt-differs', 'what': 'unflatten(flatten(t)) is not structurally identical to t',
                          'expected': want, 'got': got})
        if render(u.enc_obj(tree)) != want:
            fails.append({'key': 'input-mutated', 'what': 'flatten/unflatten mutated the input tree'})
        leaves2, spec2 = optree.tree_flatten(rebuilt, **kw)
        if len(leaves2) != len(leaves) or any(a is not b for a, b in zip(leaves, leaves2)):
            fails.append({'key': 'reflatten-leaves', 'what': 'flattening the rebuilt tree gives different leaf objects'})
        if not (spec2 == spec) or render(u.enc_spec(spec2)) != render(u.enc_spec(spec)):
            fails.append({'key': 'reflatten-spec', 'what': 'flattening the rebuilt tree gives a different treespec',
                          'expected': render(u.enc_spec(spec)), 'got': render(u.enc_spec(spec2))})
        # replacement leaves
        fresh = [Lf(10**7 + 2 * i + 1) for i in range(spec.num_leaves)]
        t2 = optree.tree_unflatten(spec, fresh)
        leaves3, spec3 = optree.tree_flatten(t2, **kw)
        if len(leaves3) != len(fresh) or any(a is not b for a, b in zip(fresh, leaves3)):
            fails.append({'key': 'replace-leaves', 'what': 'unflatten(n replacement leaves) then flatten does not return those leaves'})
        if not (spec3 == spec):
            fails.append({'key': 'replace-spec', 'what': 'treespec changed after replacing leaves'})
        for bad in (fresh[:-1], fresh + [Lf(3)]) if fresh else ([Lf(3)],):
            try:
                optree.tree_unflatten(spec, bad)
                fails.append({'key': 'leafcount-accepted', 'what': f'unflatten accepted {len(bad)} leaves for {spec.num_leaves}'})
            except ValueError:
                pass
            except Exception as e:
                fails.append({'key': 'leafcount-error-type', 'what': f'wrong leaf count raised {type(e).__name__}'})
    return fails
