"""C11  Pickling a treespec preserves it exactly."""

from __future__ import annotations

import json
import os
import subprocess
import sys

from sexp import A, Atom, parse, render
from props.common import in_cfg, op, tree_distribution
from gen import STD_REGISTRY, reg_lines, relabel_leaves, vary_dicts

RULE = ('treespecs from random pytrees (all kinds, custom nodes with entries, both none_is_leaf, all namespaces, both '
        'dict-order modes; 30% are records: copies of one sub-tree whose dicts share key sets but differ in insertion order / '
        'kind / maxlen) - '
        'dict-order modes) x pickle protocols 0-5 + copy / deepcopy; a sample is also loaded in a fresh interpreter '
        'with the same / a missing / a re-registered registration; distinct by request text; non-trivial = internal node')
EXTRA_TRUST = ['pickle byte streams, copy/deepcopy plumbing and the second interpreter are exercised by the '
               'implementation oracle only (not modelled)']


def custom_classes(t, out):
    from gen import children_slots
    if isinstance(t, Atom):
        return
    if t[0] == 'U':
        out.add((0, int(t[1])))
    if t[0] == 'NT':
        out.add((1, int(t[1])))
    slots = children_slots(t)
    if slots:
        start, pairs = slots
        for c in t[start:]:
            custom_classes(c[1] if pairs else c, out)


def generate(gen, tier):
    rng = gen.rng
    n = 200 if tier == 'quick' else 5000
    cases = []
    for i in range(n):
        t = gen.tree(depth=rng.choice([2, 3, 3]), width=rng.choice([3, 4]),
                     weights=[2, 2, 4, 3, 3, 2, 2, 1, 5, 1, 2])
        if rng.random() < 0.3:
            # "records": several copies of one sub-tree whose dicts share key sets but differ in insertion order / dict kind /
            # maxlen, so per-node information that == does not compare (original key order ...) differs between equal nodes
            base = gen.tree(depth=2, width=3, weights=[0, 0, 1, 1, 6, 2, 3, 1, 2, 0, 1], leaf_p=0.0)
            copies = [vary_dicts(gen, relabel_leaves(gen, base), p_kind=0.2, p_order=0.9) for _ in range(rng.choice([2, 3, 4]))]
            t = [A(rng.choice(['l', 'T'])), *copies] if rng.random() < 0.7 else \
                [A('O'), *[[k, c] for k, c in zip(gen.keyset(len(copies), 'str'), copies)]]
        cfg = gen.cfg(pred=rng.choice([0, 0, 0, 2, 6]))
        s = [A('structure'), cfg, t]
        lines = [op('spec', [A('pickle'), s]), op('eq', [A('pickle'), s], s), op('hash_eq', [A('pickle'), s], s),
                 op('repr', [A('pickle'), s]), op('paths', [A('pickle'), s]), op('accessors', [A('pickle'), s])]
        # missing / re-registered registration: unregister one custom class of the tree's namespace
        used = set()
        custom_classes(t, used)
        ns = cfg[2]
        cands = [(rns, ck, c, ek, mode) for rns, ck, c, ek, mode in STD_REGISTRY
                 if (ck, c) in used and rns in ('', ns)]
        fresh = rng.random() < (0.2 if tier == 'quick' else 0.05)
        miss = None
        if cands:
            rns, ck, c, ek, mode = rng.choice(cands)
            miss = [rns, ck, c, ek, mode]
            lines += [op('pickle_save', s), render([A('unreg'), rns, ck, c]), '(pickle_load)',
                      render([A('reg'), rns, ck, c, A(ek), A(mode)]), '(pickle_load)']
        cases.append({'lines': lines, 'o': {'cfg': render(cfg), 'tree': render(t), 'fresh': fresh, 'miss': miss}})
    return cases


def nontrivial(case):
    t = parse(case['o']['tree'])
    return not isinstance(t, Atom) and t[0] != 'L'


def distribution(cases):
    d = tree_distribution(cases)
    d['fresh_process_cases'] = sum(1 for c in cases if c['o']['fresh'])
    d['missing_registration_cases'] = sum(1 for c in cases if c['o']['miss'])
    return d


def child(req):
    env = dict(os.environ)
    p = subprocess.run([sys.executable, os.path.join(os.path.dirname(os.path.dirname(os.path.abspath(__file__))), 'pickle_child.py')],
                       input=json.dumps(req), capture_output=True, text=True, env=env, timeout=120)
    if p.returncode != 0:
        return {'load': ['crash', p.returncode, p.stderr[-300:]]}
    return json.loads(p.stdout.strip().splitlines()[-1])


def oracle(impl, o):
    import copy
    import pickle
    import optree
    u = impl.u
    fails = []
    tree = u.obj(parse(o['tree']))
    with in_cfg(impl, o['cfg']) as kw:
        try:
            leaves, spec = optree.tree_flatten(tree, **kw)
        except Exception:
            return []
        want_tree = render(u.enc_obj(spec.unflatten(leaves)))
        want = render(u.enc_spec(spec))
        routes = [(f'protocol {p}', lambda p=p: pickle.loads(pickle.dumps(spec, protocol=p))) for p in range(0, 6)]
        routes += [('copy.copy', lambda: copy.copy(spec)), ('copy.deepcopy', lambda: copy.deepcopy(spec))]
        # the dict-order mode is process configuration at *flatten* time: switching it between flatten, dump and load
        # must not change what the treespec says (original key order included)
        from run_impl import ns_arg

        def flipped(f, dump_ns, load_ns=None):
            def run():
                cur = bool(optree._C.is_dict_insertion_ordered(dump_ns))
                with optree.dict_insertion_ordered(not cur, namespace=ns_arg(dump_ns)):
                    data_ = f()
                if load_ns is None:
                    return data_
                cur2 = bool(optree._C.is_dict_insertion_ordered(load_ns))
                with optree.dict_insertion_ordered(not cur2, namespace=ns_arg(load_ns)):
                    return pickle.loads(data_)
            return run
        for fns in sorted({'', kw['namespace'] or 'a'}):
            routes += [(f'dumps+loads with the mode of namespace {fns!r} flipped', flipped(lambda: pickle.loads(pickle.dumps(spec)), fns)),
                       (f'copy.copy with the mode of namespace {fns!r} flipped', flipped(lambda: copy.copy(spec), fns)),
                       (f'copy.deepcopy with the mode of namespace {fns!r} flipped', flipped(lambda: copy.deepcopy(spec), fns)),
                       (f'dumps under flipped {fns!r}, loads outside', lambda fns=fns: pickle.loads(flipped(lambda: pickle.dumps(spec), fns)())),
                       (f'dumps outside, loads under flipped {fns!r}', flipped(lambda: pickle.dumps(spec), 'zz-unused', fns))]
        for name, mk in routes:
            try:
                s2 = mk()
            except Exception as e:  # noqa: BLE001
                key = 'pickle-raises'
                if name in ('protocol 0', 'protocol 1') and isinstance(e, TypeError) and 'cannot pickle' in str(e):
                    key = 'pickle-protocol-0-1-unsupported'
                fails.append({'key': key, 'what': f'{name} raised {type(e).__name__}: {e}'})
                continue
            if not (s2 == spec and spec == s2) or hash(s2) != hash(spec):
                fails.append({'key': 'pickle-eq-hash', 'what': f'{name}: result is not equal / hashes differently'})
            if render(u.enc_spec(s2)) != want:
                fails.append({'key': 'pickle-node-array', 'what': f'{name}: node array differs', 'want': want[:300],
                              'got': render(u.enc_spec(s2))[:300]})
            if repr(s2) != repr(spec) or s2.paths() != spec.paths() or s2.accessors() != spec.accessors() \
                    or s2.entries() != spec.entries() or s2.children() != spec.children():
                fails.append({'key': 'pickle-observers', 'what': f'{name}: repr / paths / accessors / entries / children differ'})
            try:
                got_tree = render(u.enc_obj(s2.unflatten(leaves)))
            except Exception as e:  # noqa: BLE001
                got_tree = f'err {type(e).__name__}'
            if got_tree != want_tree:
                fails.append({'key': 'pickle-unflatten', 'what': f'{name}: unflatten gives a different tree (incl. dict key order)',
                              'want': want_tree[:300], 'got': got_tree[:300]})
        data = pickle.dumps(spec).hex()
        has_custom = any(n[0] == 0 for n in spec.__getstate__()[0])
    if o['fresh']:
        base = reg_lines()
        r = child({'setup': base, 'pickle': data, 'tree': o['tree'], 'cfg': o['cfg']})
        if r['load'][0] != 'ok':
            fails.append({'key': 'fresh-load-fails', 'what': f'loading in a fresh process with the same registrations failed: {r["load"]}'})
        else:
            if r['spec'] != want or r['repr'] != repr(spec) or not r['eq_fresh'] or not r['hash_fresh'] \
                    or r['unflatten'] != want_tree:
                fails.append({'key': 'fresh-differs', 'what': 'in a fresh process the unpickled treespec differs from the original / the freshly flattened one',
                              'detail': {k: r[k] for k in ('eq_fresh', 'hash_fresh')}})
        if o['miss'] and has_custom:
            rns, ck, c, ek, mode = o['miss']
            without = [l for l in base if l != render([A('reg'), rns, ck, c, A(ek), A(mode)])]
            r2 = child({'setup': without, 'pickle': data})
            # the recorded class may still resolve through the other table (global vs namespace)
            still = any(rk == ck and rc == c and rn2 in ('', parse(o['cfg'])[2]) and rn2 != rns
                        for rn2, rk, rc, _, _ in STD_REGISTRY)
            uses = any(n[0] == 0 and n[4] is not None and (n[4].__name__ == f'U{c}' if ck == 0 else True)
                       for n in spec.__getstate__()[0])
            if uses and not still and spec.namespace in ('', rns) or (uses and not still and rns == ''):
                if r2['load'][0] == 'ok':
                    fails.append({'key': 'missing-registration-loads', 'what': 'a custom type recorded in the pickle is not registered in the loading process but loading succeeded',
                                  'spec': r2.get('repr')})
    return fails
