"""C04  Paths and accessors address exactly the leaves."""

from __future__ import annotations

from sexp import A, Atom, parse, render
from props.common import has_internal_node, in_cfg, op, tree_distribution

RULE = ('random pytrees whose custom nodes expose children via their declared entries (registrations with '
        'GetItem / GetAttr entry classes), all built-in kinds incl. struct sequences; distinct by request text; '
        'non-trivial = has an internal node')

# user classes whose registered entries really address the children (see gen.STD_REGISTRY):
#   cls 1 (global, getattr, named), cls 2 ('a', getitem, shifted), cls 3 (global getitem ints / 'a' getattr named),
#   cls 4 ('b', getitem, shifted).  cls 0 / 6 use AutoEntry -> FlattenedEntry (not callable) and are excluded.
FAITHFUL_USER = [1, 2, 3, 4, 5, 7]


def restrict(gen, t):
    """replace user nodes of classes with non-addressable entries"""
    from gen import map_children
    if isinstance(t, Atom) or t[0] == 'L':
        return t
    t = map_children(t, lambda c: restrict(gen, c))
    if t[0] == 'U' and int(t[1]) not in FAITHFUL_USER:
        t = list(t)
        t[1] = gen.rng.choice(FAITHFUL_USER)
    return t


def generate(gen, tier):
    n = 300 if tier == 'quick' else 10000
    cases = []
    for i in range(n):
        t = restrict(gen, gen.tree(depth=gen.rng.choice([2, 3, 4]), width=gen.rng.choice([3, 4]),
                                   weights=[2, 2, 3, 2, 2, 2, 2, 2, 4, 1, 2],
                                   key_style=gen.rng.choice([None, 'str', 'int', 'mixed', 'tup'])))
        if gen.rng.random() < 0.3:
            t = restrict(gen, gen.with_leafless(t, 0.4))
        cfg = gen.cfg(pred=gen.rng.choice([0, 0, 0, 1, 2, 5, 6]))
        s = [A('structure'), cfg, t]
        lines = [op('accessors', s), op('paths', s), op('flatten_with_path', cfg, t)]
        cases.append({'lines': lines, 'o': {'cfg': render(cfg), 'tree': render(t)}})
    # every struct-sequence / namedtuple class at the root and nested
    from gen import NT_ARITY, SS_ARITY
    for c, ar in enumerate(SS_ARITY):
        t = [A('SS'), c, *[gen.leaf(0) for _ in range(ar)]]
        for tt in (t, [A('T'), gen.leaf(0), t]):
            cfg = gen.cfg(pred=0)
            s = [A('structure'), cfg, tt]
            cases.append({'lines': [op('accessors', s), op('paths', s)], 'o': {'cfg': render(cfg), 'tree': render(tt)}})
    for c, ar in enumerate(NT_ARITY):
        t = [A('NT'), c, *[gen.leaf(0) for _ in range(ar)]]
        cfg = gen.cfg(pred=0)
        s = [A('structure'), cfg, t]
        cases.append({'lines': [op('accessors', s), op('paths', s)], 'o': {'cfg': render(cfg), 'tree': render(t)}})
    return cases


def nontrivial(case):
    return has_internal_node(parse(case['o']['tree']))


def distribution(cases):
    return tree_distribution(cases)


def literal_key(k):
    return type(k) in (int, str) or (type(k) is tuple and all(type(x) is int for x in k))


def oracle(impl, o):
    import optree
    from optree import PyTreeAccessor
    u = impl.u
    fails = []
    tree = u.obj(parse(o['tree']))
    with in_cfg(impl, o['cfg']) as kw:
        try:
            accs, leaves, spec = optree.tree_flatten_with_accessor(tree, **kw)
            paths = optree.tree_paths(tree, **kw)
        except Exception:
            return []
        if not (len(accs) == len(leaves) == len(paths)):
            return [{'key': 'counts', 'what': 'numbers of accessors / leaves / paths differ'}]
        for i, (acc, leaf, path) in enumerate(zip(accs, leaves, paths)):
            try:
                got = acc(tree)
            except Exception as e:  # noqa: BLE001
                fails.append({'key': 'accessor-raises', 'what': f'accessor {i} raised {type(e).__name__}: {e}', 'accessor': repr(acc)[:200]})
                break
            if got is not leaf:
                key = 'accessor-wrong-leaf'
                fails.append({'key': key, 'what': f'accessor {i} does not return leaf {i}', 'accessor': repr(acc)[:200]})
                break
            if acc.path != path:
                fails.append({'key': 'accessor-path', 'what': f'accessor {i}.path != path {i}'})
                break
            # every entry is typed with its parent's node type and kind, and addresses the child
            node = tree
            for e in acc:
                if e.type is not type(node):
                    fails.append({'key': 'entry-type', 'what': f'entry {e!r} typed {e.type} but parent is {type(node)}'})
                    break
                try:
                    node = e(node)
                except Exception as ex:  # noqa: BLE001
                    fails.append({'key': 'entry-raises', 'what': f'{e!r} raised {type(ex).__name__}'})
                    break
            # field names of namedtuple / struct-sequence entries
            node = tree
            for e in acc:
                name = type(e).__name__
                if name in ('NamedTupleEntry', 'StructSequenceEntry'):
                    try:
                        by_name = getattr(node, e.field)
                    except Exception as ex:  # noqa: BLE001
                        by_name = ex
                    if by_name is not node[e.entry]:
                        key = 'field-name'
                        if name == 'StructSequenceEntry' and type(node).n_unnamed_fields > 0:
                            key = 'structseq-unnamed-visible-fields'
                        fails.append({'key': key, 'what': f'{name} index {e.entry} has field name {e.field!r} which is not that child',
                                      'type': repr(type(node))})
                        break
                node = e(node)
            # slicing and concatenation compose access
            k = len(acc) // 2
            if (acc[:k] + acc[k:]) != acc or hash(acc[:k] + acc[k:]) != hash(acc):
                fails.append({'key': 'slice-concat-eq', 'what': 'acc[:k] + acc[k:] != acc (or hash differs)'})
            if acc[k:](acc[:k](tree)) is not leaf:
                fails.append({'key': 'slice-concat-access', 'what': 'acc[k:](acc[:k](tree)) is not the leaf'})
            if PyTreeAccessor(tuple(acc)) != acc or hash(PyTreeAccessor(tuple(acc))) != hash(acc):
                fails.append({'key': 'accessor-eq-hash', 'what': 'an equal accessor compares or hashes differently'})
            # generated code
            if all(type(e).__name__ != 'FlattenedEntry' and literal_key(e.entry) for e in acc):
                code = acc.codify('tree')
                try:
                    val = eval(code, {'tree': tree})  # noqa: S307
                except Exception as ex:  # noqa: BLE001
                    val = ex
                if val is not leaf:
                    key = 'codify'
                    node = tree
                    for e in acc:
                        if type(e).__name__ == 'StructSequenceEntry' and type(node).n_unnamed_fields > 0:
                            key = 'structseq-unnamed-visible-fields'
                        node = e(node)
                    fails.append({'key': key, 'what': f'eval({code!r}) is not leaf {i}'})
                    break
        # distinct and prefix-free
        ps = [tuple(map(_hashable, p)) for p in paths]
        if len(set(ps)) != len(ps):
            fails.append({'key': 'paths-distinct', 'what': 'two leaves have the same path'})
        else:
            sp = sorted(ps, key=lambda p: (len(p),))
            pset = set(ps)
            for p in ps:
                for j in range(len(p)):
                    if p[:j] in pset:
                        fails.append({'key': 'paths-prefix-free', 'what': 'a path is a proper prefix of another'})
                        break
    return fails


def _hashable(e):
    return ('id', id(e)) if not isinstance(e, (int, str, tuple)) else e
