"""C04  Paths and accessors address exactly the leaves."""

from __future__ import annotations

from sexp import A, Atom, parse, render
from props.common import has_internal_node, in_cfg, op, tree_distribution

RULE = ('random pytrees whose custom nodes expose children via their declared entries (registrations with '
        'GetItem / GetAttr entry classes), all built-in kinds incl. struct sequences; distinct by request text; '
        'non-trivial = has an internal node')

# user classes whose registered entries really address the children (see gen.STD_REGISTRY):
#   cls 1 (global, getattr, named), cls 2 ('a', getitem, shifted), cls 3 (global getitem ints / 'a' getattr named),
#   cls 4 ('b', getitem, shifted).  cls 0 / 6 use AutoEntry -> FlattenedEntry (not callable) and are excluded.
FAITHFUL_USER = [1, 2, 3, 4, 5, 7]


def restrict(gen, t):
    """replace user nodes of classes with non-addressable entries"""
    from gen import map_children
    if isinstance(t, Atom) or t[0] == 'L':
        return t
    t = map_children(t, lambda c: restrict(gen, c))
    if t[0] == 'U' and int(t[1]) not in FAITHFUL_USER:
        t = list(t)
        t[1] = gen.rng.choice(FAITHFUL_USER)
    return t


def generate(gen, tier):
    n = 300 if tier == 'quick' else 10000
    cases = []
    for i in range(n):
        t = restrict(gen, gen.tree(depth=gen.rng.choice([2, 3, 4]), width=gen.rng.choice([3, 4]),
                                   weights=[2, 2, 3, 2, 2, 2, 2, 2, 4, 1, 2],
                                   key_style=gen.rng.choice([None, 'str', 'int', 'mixed', 'tup'])))
        if gen.rng.random() < 0.3:
            t = restrict(gen, gen.with_leafless(t, 0.4))
        cfg = gen.cfg(pred=gen.rng.choice([0, 0, 0, 1, 2, 5, 6]))
        s = [A('structure'), cfg, t]
        lines = [op('accessors', s), op('paths', s), op('flatten_with_path', cfg, t)]
        cases.append({'lines': lines, 'o': {'cfg': render(cfg), 'tree': render(t)}})
    # every struct-sequence / namedtuple class at the root and nested
    from gen import NT_ARITY, SS_ARITY
    for c, ar in enumerate(SS_ARITY):
        t = [A('SS'), c, *[gen.leaf(0) for _ in range(ar)]]
        for tt in (t, [A('T'), gen.leaf(0), t]):
            cfg = gen.cfg(pred=0)
            s = [A('structure'), cfg, tt]
            cases.append({'lines': [op('accessors', s), op('paths', s)], 'o': {'cfg': render(cfg), 'tree': render(tt)}})
    for c, ar in enumerate(NT_ARITY):
        t = [A('NT'), c, *[gen.leaf(0) for _ in range(ar)]]
        cfg = gen.cfg(pred=0)
        s = [A('structure'), cfg, t]
        cases.append({'lines': [op('accessors', s), op('paths', s)], 'o': {'cfg': render(cfg), 'tree': render(t)}})
    # entry-class zoo: node classes and registration styles outside the modelled universe (implementation oracle only)
    for _ in range(150 if tier == 'quick' else 4000):
        cases.append({'lines': [], 'o': {'zoo': gen.rng.randrange(10**9)}})
    return cases


def nontrivial(case):
    return 'zoo' in case['o'] or has_internal_node(parse(case['o']['tree']))


def distribution(cases):
    d = tree_distribution([c for c in cases if 'zoo' not in c['o']])
    d['entry_class_zoo_cases'] = sum(1 for c in cases if 'zoo' in c['o'])
    return d


def literal_key(k):
    return type(k) in (int, str) or (type(k) is tuple and all(type(x) is int for x in k))


def outcome_(f):
    try:
        return ('ok', f())
    except Exception as e:  # noqa: BLE001
        return ('err', type(e).__name__)


def oracle(impl, o):
    if 'zoo' in o:
        return zoo_oracle(o)
    u = impl.u
    tree = u.obj(parse(o['tree']))
    with in_cfg(impl, o['cfg']) as kw:
        return check_tree(tree, kw)


def check_tree(tree, kw):
    """the statement of C04 evaluated on one tree"""
    import optree
    from optree import PyTreeAccessor
    fails = []
    if True:
        try:
            accs, leaves, spec = optree.tree_flatten_with_accessor(tree, **kw)
            paths = optree.tree_paths(tree, **kw)
        except Exception:
            return []
        if not (len(accs) == len(leaves) == len(paths)):
            return [{'key': 'counts', 'what': 'numbers of accessors / leaves / paths differ'}]
        for i, (acc, leaf, path) in enumerate(zip(accs, leaves, paths)):
            try:
                got = acc(tree)
            except Exception as e:  # noqa: BLE001
                fails.append({'key': 'accessor-raises', 'what': f'accessor {i} raised {type(e).__name__}: {e}', 'accessor': repr(acc)[:200]})
                break
            if got is not leaf:
                key = 'accessor-wrong-leaf'
                fails.append({'key': key, 'what': f'accessor {i} does not return leaf {i}', 'accessor': repr(acc)[:200]})
                break
            if acc.path != path:
                fails.append({'key': 'accessor-path', 'what': f'accessor {i}.path != path {i}'})
                break
            # every entry is typed with its parent's node type and kind, and addresses the child
            node = tree
            for e in acc:
                if e.type is not type(node):
                    fails.append({'key': 'entry-type', 'what': f'entry {e!r} typed {e.type} but parent is {type(node)}'})
                    break
                try:
                    node = e(node)
                except Exception as ex:  # noqa: BLE001
                    fails.append({'key': 'entry-raises', 'what': f'{e!r} raised {type(ex).__name__}'})
                    break
            # field names of namedtuple / struct-sequence entries
            node = tree
            for e in acc:
                name = type(e).__name__
                if name in ('NamedTupleEntry', 'StructSequenceEntry'):
                    try:
                        by_name = getattr(node, e.field)
                    except Exception as ex:  # noqa: BLE001
                        by_name = ex
                    if by_name is not node[e.entry]:
                        key = 'field-name'
                        if name == 'StructSequenceEntry' and type(node).n_unnamed_fields > 0:
                            key = 'structseq-unnamed-visible-fields'
                        fails.append({'key': key, 'what': f'{name} index {e.entry} has field name {e.field!r} which is not that child',
                                      'type': repr(type(node))})
                        break
                node = e(node)
            # slicing and concatenation compose access
            k = len(acc) // 2
            if (acc[:k] + acc[k:]) != acc or hash(acc[:k] + acc[k:]) != hash(acc):
                fails.append({'key': 'slice-concat-eq', 'what': 'acc[:k] + acc[k:] != acc (or hash differs)'})
            if acc[k:](acc[:k](tree)) is not leaf:
                fails.append({'key': 'slice-concat-access', 'what': 'acc[k:](acc[:k](tree)) is not the leaf'})
            if PyTreeAccessor(tuple(acc)) != acc or hash(PyTreeAccessor(tuple(acc))) != hash(acc):
                fails.append({'key': 'accessor-eq-hash', 'what': 'an equal accessor compares or hashes differently'})
            # an accessor is the tuple of its entries: every index / slice / concatenation / repetition says what the
            # tuple says, and the result still walks the tree entry by entry
            ents = tuple(acc)
            n_e = len(ents)
            bad = None
            for j in range(-n_e - 1, n_e + 1):
                want = outcome_(lambda: ents[j])
                got = outcome_(lambda: acc[j])
                if want[0] != got[0] or (want[0] == 'ok' and got[1] is not want[1] and got[1] != want[1]):
                    bad = f'acc[{j}]'
            bounds = [None, 0, 1, -1, 2, -2, n_e, -n_e, n_e + 2, -n_e - 2]
            for a_ in bounds:
                for b_ in bounds:
                    for st in (None, 1, 2, -1, -2, 3):
                        sl = slice(a_, b_, st)
                        got = acc[sl]
                        if tuple(got) != ents[sl] or not isinstance(got, PyTreeAccessor) or got.path != acc.path[sl]:
                            bad = f'acc[{a_}:{b_}:{st}]'
            if bad is None and n_e:
                if tuple(acc[::-1][::-1]) != ents or acc[::-1][::-1](tree) is not leaf:
                    bad = 'acc[::-1][::-1]'
                if tuple(acc + acc[:1]) != ents + ents[:1] or tuple(acc * 2) != ents * 2 or tuple(2 * acc) != ents * 2 \
                        or tuple(acc * 0) != ():
                    bad = 'acc + / *'
                for k2 in range(n_e + 1):
                    if (acc[:k2] + acc[k2:]) != acc or acc[k2:](acc[:k2](tree)) is not leaf:
                        bad = f'acc[:{k2}] + acc[{k2}:]'
                if (acc == PyTreeAccessor(ents[:-1])) or (acc != PyTreeAccessor(ents)) or len(acc) != n_e or list(iter(acc)) != list(ents):
                    bad = 'eq / len / iter'
            if bad is not None:
                fails.append({'key': 'accessor-sequence-protocol', 'what': f'{bad} differs from the same operation on the tuple of entries',
                              'accessor': repr(acc)[:200]})
            # generated code
            if all(type(e).__name__ != 'FlattenedEntry' and literal_key(e.entry) for e in acc):
                code = acc.codify('tree')
                try:
                    val = eval(code, {'tree': tree})  # noqa: S307
                except Exception as ex:  # noqa: BLE001
                    val = ex
                if val is not leaf:
                    key = 'codify'
                    node = tree
                    for e in acc:
                        if type(e).__name__ == 'StructSequenceEntry' and type(node).n_unnamed_fields > 0:
                            key = 'structseq-unnamed-visible-fields'
                        node = e(node)
                    fails.append({'key': key, 'what': f'eval({code!r}) is not leaf {i}'})
                    break
        # distinct and prefix-free
        ps = [tuple(map(_hashable, p)) for p in paths]
        if len(set(ps)) != len(ps):
            fails.append({'key': 'paths-distinct', 'what': 'two leaves have the same path'})
        else:
            sp = sorted(ps, key=lambda p: (len(p),))
            pset = set(ps)
            for p in ps:
                for j in range(len(p)):
                    if p[:j] in pset:
                        fails.append({'key': 'paths-prefix-free', 'what': 'a path is a proper prefix of another'})
                        break
    return fails


_ZOO = {}


def zoo_classes():
    """privately registered node classes, one per (path-entry class x registration style) the generated universe lacks:
    stdlib dataclasses registered by position (AutoEntry -> DataclassEntry with integer entries) whose init=False fields sit
    before / between / after the init fields or are inherited, dataclasses registered with field-name entries, Mapping /
    Sequence sub-classes and namedtuple / struct-sequence look-alikes under AutoEntry, explicit GetAttr / GetItem entries"""
    if _ZOO:
        return _ZOO
    import collections.abc
    import dataclasses as std
    import optree
    from optree.accessor import DataclassEntry, GetAttrEntry, GetItemEntry
    NS = 'c04zoo'
    classes = []

    def reg_positional(cls, names):
        optree.register_pytree_node(cls, lambda o: ([getattr(o, n) for n in names], None),
                                    lambda md, ch: cls(**dict(zip(names, ch))), namespace=NS)

    def reg_named(cls, names, entry_type):
        optree.register_pytree_node(cls, lambda o: ([getattr(o, n) for n in names], None, tuple(names)),
                                    lambda md, ch: cls(**dict(zip(names, ch))), path_entry_type=entry_type, namespace=NS)

    layouts = {
        'DcPlain': [('a', True), ('b', True), ('c', True)],
        'DcSkipFirst': [('tag', False), ('a', True), ('b', True)],
        'DcSkipMiddle': [('a', True), ('tag', False), ('b', True), ('tag2', False), ('c', True)],
        'DcSkipLast': [('a', True), ('b', True), ('tag', False)],
    }
    for name, fields in layouts.items():
        ns = {'__annotations__': {n: object for n, _ in fields}}
        for n, init in fields:
            if not init:
                ns[n] = std.field(init=False, default='meta')
        cls = std.dataclass(type(name, (), ns))
        init_names = [n for n, i in fields if i]
        reg_positional(cls, init_names)
        classes.append((cls, init_names))
        cls2 = std.dataclass(type(name + 'Named', (), dict(ns)))
        reg_named(cls2, init_names, DataclassEntry)
        classes.append((cls2, init_names))
    base = std.dataclass(type('DcBase', (), {'__annotations__': {'tag': object, 'x': object},
                                             'tag': std.field(init=False, default='meta')}))
    derived = std.dataclass(type('DcDerived', (base,), {'__annotations__': {'y': object}}))
    reg_positional(derived, ['x', 'y'])
    classes.append((derived, ['x', 'y']))

    class AttrBox:
        def __init__(self, p, q):
            self.p, self.q = p, q
    reg_named(AttrBox, ['p', 'q'], GetAttrEntry)
    classes.append((AttrBox, ['p', 'q']))

    class ItemBox:
        def __init__(self, p, q):
            self.d = {'p': p, 'q': q}

        def __getitem__(self, k):
            return self.d[k]
    optree.register_pytree_node(ItemBox, lambda o: ([o.d['p'], o.d['q']], None, ('p', 'q')),
                                lambda md, ch: ItemBox(*ch), path_entry_type=GetItemEntry, namespace=NS)
    classes.append((ItemBox, ['p', 'q']))

    class MyMap(collections.abc.Mapping):
        def __init__(self, **kw):
            self.d = dict(kw)

        def __getitem__(self, k):
            return self.d[k]

        def __iter__(self):
            return iter(self.d)

        def __len__(self):
            return len(self.d)
    optree.register_pytree_node(MyMap, lambda o: (list(o.d.values()), None, tuple(o.d)),
                                lambda md, ch: MyMap(), namespace=NS)
    classes.append((MyMap, ['k1', 'k2']))

    class MySeq(collections.abc.Sequence):
        def __init__(self, *xs, **kw):
            self.xs = list(xs) + list(kw.values())

        def __getitem__(self, i):
            return self.xs[i]

        def __len__(self):
            return len(self.xs)
    optree.register_pytree_node(MySeq, lambda o: (list(o.xs), None), lambda md, ch: MySeq(*ch), namespace=NS)
    classes.append((MySeq, ['s0', 's1', 's2']))
    NT = collections.namedtuple('ZooNT', ['u', 'v'])
    optree.register_pytree_node(NT, lambda o: (list(o), None), lambda md, ch: NT(*ch), namespace=NS)
    classes.append((NT, ['u', 'v']))
    _ZOO.update({'ns': NS, 'classes': classes})
    return _ZOO


def zoo_oracle(o):
    import collections
    import random
    zoo = zoo_classes()
    rng = random.Random(o['zoo'])

    class Leaf:
        pass

    def inst(depth):
        cls, names = rng.choice(zoo['classes'])
        return cls(**{n: sub(depth - 1) for n in names})

    def sub(depth):
        c = rng.random()
        if depth <= 0 or c < 0.3:
            return Leaf()
        if c < 0.6:
            return inst(depth)
        if c < 0.7:
            return [sub(depth - 1), inst(depth - 1)]
        if c < 0.8:
            return {rng.choice([1, 'k', (1, 2), 2.5]): inst(depth - 1), 'z': sub(depth - 1)}
        if c < 0.9:
            return collections.defaultdict(list, {'q': collections.deque([inst(depth - 1), sub(depth - 1)], maxlen=3)})
        return collections.OrderedDict([(rng.choice([0, 'o']), inst(depth - 1))])
    tree = inst(2) if rng.random() < 0.5 else sub(3)
    return check_tree(tree, {'namespace': zoo['ns'], 'none_is_leaf': rng.random() < 0.3})


def _hashable(e):
    return ('id', id(e)) if not isinstance(e, (int, str, tuple)) else e
