"""C07  Prefix matching is exact and its three implementations agree."""

from __future__ import annotations

from sexp import A, Atom, parse, render
from props.common import in_cfg, op
from gen import near_miss, relabel_leaves, substitute_leaves, vary_dicts

RULE = ('pairs (prefix tree, full tree): true suffixes by leaf substitution, dict-kind / key-order / maxlen variants at '
        'one and several nesting levels with unequal subtree sizes, near misses by one local edit, unrelated pairs; '
        'distinct by request text; non-trivial = the prefix has an internal node')


def nested_dict_pair(gen):
    """an outer and a nested dict that both need re-ordering, children of unequal sizes"""
    rng = gen.rng

    def sub(n):
        if n <= 1:
            return gen.leaf(0)
        return [A(rng.choice(['T', 'l'])), *[gen.leaf(0) for _ in range(n)]]

    inner_keys = gen.keyset(rng.choice([2, 3]), rng.choice(['str', 'int', 'mixed']))
    inner = [A(rng.choice(['D', 'O'])), *[[k, sub(rng.choice([1, 2, 3]))] for k in inner_keys]]
    outer_keys = gen.keyset(rng.choice([2, 3, 4]), rng.choice(['str', 'int', 'mixed']))
    items = [[k, sub(rng.choice([1, 1, 2, 4]))] for k in outer_keys]
    items[rng.randrange(len(items))][1] = inner
    if rng.random() < 0.4 and len(items) > 1:
        j = rng.randrange(len(items))
        if items[j][1] is not inner:
            k2 = gen.keyset(2, 'str')
            items[j][1] = [A('O'), *[[k, sub(rng.choice([1, 3]))] for k in k2]]
    return [A(rng.choice(['D', 'O'])), *items]


def generate(gen, tier):
    rng = gen.rng
    n = 300 if tier == 'quick' else 12000
    cases = []
    for i in range(n):
        cls = rng.choices(['suffix', 'variant', 'suffix+variant', 'nested', 'near', 'unrelated', 'same', 'near+variant', 'rename',
                           'custom'],
                          weights=[20, 15, 20, 20, 12, 5, 5, 8, 8, 6])[0]
        if cls == 'custom':
            # registered classes on both sides: equal / different metadata, different arity, and full trees whose
            # flatten function misbehaves (prefix_errors goes through tree_flatten_one_level, flatten_up_to does not)
            cfg = gen.cfg(pred=0)
            c = rng.choice([0, 0, 3] + ([2] if cfg[2] == 'a' else []) + ([4] if cfg[2] == 'b' else []))
            kids = [gen.leaf(0) for _ in range(rng.choice([1, 2, 3]))]
            m1 = gen.md()
            m2 = m1 if rng.random() < 0.5 else gen.md()
            kids_f = [rng.choice([k, [A('T'), gen.leaf(0), gen.leaf(0)]]) for k in kids]
            if rng.random() < 0.2:
                kids_f = kids_f[:-1] if len(kids_f) > 1 and rng.random() < 0.5 else kids_f + [gen.leaf(0)]
            q = rng.choice(['ok', 'ok', 'ok', 'len1', 'len4', 'ent-', 'ent+', 'chNI',
                            'enNI'])
            p = [A('U'), c, m1, A('ok'), *kids]
            f = [A('U'), c, m2, A(q), *kids_f]
            if rng.random() < 0.5:
                p, f = [A('l'), gen.leaf(0), p], [A('l'), gen.leaf(0), f]
        elif cls == 'nested':
            p = nested_dict_pair(gen)
            # the prefix keeps only the top of each child
            f = vary_dicts(gen, substitute_leaves(gen, p, 0.3, 1), p_kind=0.3, p_order=0.9)
            cfg = gen.cfg(pred=0, ordered=rng.choice([[], [''], []]))
            if rng.random() < 0.5:
                # prefix is the OrderedDict version in the *other* key order (no sorting hides it)
                p = to_ordered(p)
                f = to_ordered(f)
        else:
            p = gen.tree(depth=rng.choice([2, 3, 3]), width=rng.choice([3, 4]),
                         weights=[3, 3, 5, 4, 3, 2, 2, 1, 3, 1, 3])
            cfg = gen.cfg(pred=rng.choice([0, 0, 0, 1, 2, 3, 4, 6]))
            if cls == 'suffix':
                f = substitute_leaves(gen, p, 0.4, 2)
            elif cls == 'variant':
                f = vary_dicts(gen, relabel_leaves(gen, p))
            elif cls == 'suffix+variant':
                f = vary_dicts(gen, substitute_leaves(gen, p, 0.4, 2))
            elif cls == 'near':
                f, _ = near_miss(gen, substitute_leaves(gen, p, 0.2, 1))
            elif cls == 'near+variant':
                # a near miss whose dict nodes also change kind / factory / key order (a defaultdict with a factory
                # never raises KeyError: key-set comparisons must not rely on subscripting)
                f, _ = near_miss(gen, relabel_leaves(gen, p))
                f = vary_dicts(gen, f, p_kind=0.9, p_order=0.5)
            elif cls == 'rename':
                # same-size key sets that differ in one key, flat children, any pair of dict kinds
                ks = gen.keyset(rng.choice([1, 2, 3]), rng.choice(['str', 'int', 'mixed']))
                kp, kf = rng.choice(['D', 'O', 'DD']), rng.choice(['D', 'O', 'DD', 'DD'])
                items_p = [[k, gen.leaf(0)] for k in ks]
                items_f = [[k, gen.leaf(0)] for k in ks]
                j = rng.randrange(len(items_f))
                items_f[j] = [[A('s'), 'zzz-renamed'], items_f[j][1]]
                rng.shuffle(items_f)
                mkd = lambda kind, items: [A('DD'), rng.choice([0, 1, 2, 3, A('N')]), *items] if kind == 'DD' else [A(kind), *items]  # noqa: E731
                p, f = mkd(kp, items_p), mkd(kf, items_f)
                if rng.random() < 0.5:
                    p, f = [A('l'), p, gen.leaf(0)], [A('l'), f, gen.leaf(0)]
            elif cls == 'unrelated':
                f = gen.tree(depth=2, width=3)
            else:
                f = relabel_leaves(gen, p)
        sp, sf = [A('structure'), cfg, p], [A('structure'), cfg, f]
        lines = [op('flatten_up_to', sp, f), op('is_prefix', sp, sf, A('0')), op('is_prefix', sp, sf, A('1')),
                 op('is_prefix', sf, sp, A('0')), op('is_enc', sp), op('is_enc', sf),
                 op('prefix_errors', cfg, p, f)]
        cases.append({'lines': lines, 'o': {'cfg': render(cfg), 'p': render(p), 'f': render(f), 'class': cls}})
    # class relations the model universe does not have (sub-classes of namedtuple classes, look-alike classes, struct
    # sequences): the three implementations and tree_map with a rest must all agree with "same exact type"
    for wrap in range(4):
        for nil in (False, True):
            cases.append({'lines': [], 'o': {'class': 'zoo', 'zoo': wrap, 'nil': nil, 'p': '(L 0 0)', 'f': '(L 0 0)',
                                              'cfg': '-'}})
    return cases


def to_ordered(t):
    from gen import map_children
    if isinstance(t, Atom) or t[0] == 'L':
        return t
    t = map_children(t, to_ordered)
    if t[0] == 'D':
        return [A('O'), *t[1:]]
    return t


def nontrivial(case):
    if case['o'].get('class') == 'zoo':
        return True
    p = parse(case['o']['p'])
    return not isinstance(p, Atom) and p[0] != 'L'


def distribution(cases):
    d = {}
    for c in cases:
        k = c['o']['class']
        d[k] = d.get(k, 0) + 1
    return {'pair_classes': d}


def outcome(f):
    try:
        return ('ok', f())
    except Exception as e:  # noqa: BLE001
        return ('err', type(e).__name__, str(e)[:200])


def get_by_path(tree, path, ns):
    """navigate by path entries, per container type (independent of optree's accessors)"""
    from collections import deque
    from universe import UBase
    x = tree
    for e in path:
        if isinstance(x, UBase):
            x = x.children[x._index(e)]
        elif isinstance(x, (dict,)):
            x = x[e]
        elif isinstance(x, (tuple, list, deque)):
            x = x[e - 10] if (type(e) is int and e >= 10 and hasattr(type(x), '_fields') and len(x) <= e) else x[e]
        else:
            raise LookupError(e)
    return x


def _zoo(o):
    import collections
    import time
    import optree
    A_ = collections.namedtuple('A_', ['x', 'y'])
    B_ = type('B_', (A_,), {'__slots__': ()})                  # a namedtuple class inheriting from another
    C_ = collections.namedtuple('C_', ['x', 'y'])              # look-alike, unrelated
    D_ = collections.namedtuple('A_', ['x', 'y'])              # same name, same fields, another class
    zoo = [('A', lambda: A_(1, 2)), ('B(A)', lambda: B_(1, 2)), ('C', lambda: C_(1, 2)), ('A-twin', lambda: D_(1, 2)),
           ('tuple', lambda: (1, 2)), ('list', lambda: [1, 2]), ('deque', lambda: collections.deque([1, 2])),
           ('deque-maxlen', lambda: collections.deque([1, 2], maxlen=5)),
           ('struct_time', lambda: time.struct_time(range(9))), ('tuple9', lambda: tuple(range(9)))]
    wrap = [lambda x: x, lambda x: [x, 0], lambda x: {'k': x}, lambda x: (0, {'b': [x], 'a': None})][o['zoo']]
    kw = {'none_is_leaf': o['nil']}
    fails = []
    for np_, mp in zoo:
        for nf, mf in zoo:
            p, f = wrap(mp()), wrap(mf())
            same = (type(mp()) is type(mf()) and len(mp()) == len(mf())) or {np_, nf} == {'deque', 'deque-maxlen'}
            sp, sf = optree.tree_structure(p, **kw), optree.tree_structure(f, **kw)
            got = {
                'flatten_up_to': outcome(lambda: sp.flatten_up_to(f))[0] == 'ok',
                'is_prefix': bool(sp.is_prefix(sf)),
                '<=': bool(sp <= sf),
                'is_suffix': bool(sf.is_suffix(sp)),
                'prefix_errors': outcome(lambda: optree.prefix_errors(p, f, **kw)) == ('ok', []),
                'tree_map-with-rest': outcome(lambda: optree.tree_map(lambda a, b: 0, p, f, **kw))[0] == 'ok',
                'broadcast_prefix': outcome(lambda: optree.broadcast_prefix(p, f, **kw))[0] == 'ok',
            }
            r = outcome(lambda: sp.flatten_up_to(f))
            if r[0] == 'err' and r[1] != 'ValueError':
                fails.append({'key': 'zoo-exception-type', 'what': f'flatten_up_to({np_} spec, {nf} tree) raised {r[1]}'})
            for k, v in got.items():
                if v != same:
                    fails.append({'key': f'zoo-{k}', 'what': f'prefix {np_} vs full {nf} (wrapping {o["zoo"]}): {k} says '
                                  f'{"match" if v else "mismatch"}, the node types are {"the same" if same else "different"}'})
    return fails


def oracle(impl, o):
    import optree
    if o.get('class') == 'zoo':
        return _zoo(o)
    u = impl.u
    fails = []
    p = u.obj(parse(o['p']))
    f = u.obj(parse(o['f']))
    with in_cfg(impl, o['cfg']) as kw:
        try:
            leaves_p, sp = optree.tree_flatten(p, **kw)
            leaves_f, sf = optree.tree_flatten(f, **kw)
        except Exception:
            return []
        enc_before = (render(u.enc_obj(p)), render(u.enc_obj(f)), render(u.enc_spec(sp)), render(u.enc_spec(sf)))
        r_up = outcome(lambda: sp.flatten_up_to(f))
        r_is = outcome(lambda: sp.is_prefix(sf))
        r_pe = outcome(lambda: optree.prefix_errors(p, f, **kw))
        enc_after = (render(u.enc_obj(p)), render(u.enc_obj(f)), render(u.enc_spec(sp)), render(u.enc_spec(sf)))
        if enc_before != enc_after:
            fails.append({'key': 'operand-mutated', 'what': 'flatten_up_to / is_prefix / prefix_errors modified an operand tree or treespec',
                          'before': enc_before[1][:200], 'after': enc_after[1][:200]})
        if r_up[0] == 'err' and r_up[1] != 'ValueError':
            fails.append({'key': 'flatten-up-to-raises-' + r_up[1], 'what': f'flatten_up_to raised {r_up[1]}: {r_up[2]}'})
        if r_is[0] == 'err':
            fails.append({'key': 'is-prefix-raises-' + r_is[1], 'what': f'is_prefix raised {r_is[1]}: {r_is[2]}'})
        if r_pe[0] == 'err':
            fails.append({'key': 'prefix-errors-raises-' + r_pe[1], 'what': f'prefix_errors raised {r_pe[1]}: {r_pe[2]}'})
        a = r_up[0] == 'ok'
        if kw['is_leaf'] is None:
            from props.C09 import ref_is_prefix
            try:
                want = ref_is_prefix(p, f, None, kw['none_is_leaf'], kw['namespace'],
                                     bool(optree._C.is_dict_insertion_ordered(kw['namespace'])))
            except Exception:
                want = a
            if want != a:
                fails.append({'key': 'flatten-up-to-vs-reference', 'what': f'flatten_up_to {"succeeds" if a else "raises"} but by the documented rules the treespec {"is" if want else "is not"} a prefix of the tree'})
        if r_is[0] == 'ok' and bool(r_is[1]) != a:
            fails.append({'key': 'is-prefix-vs-flatten-up-to',
                          'what': f'flatten_up_to {"succeeds" if a else "raises ValueError"} but is_prefix is {r_is[1]}'})
        if r_pe[0] == 'ok' and (len(r_pe[1]) == 0) != a:
            fails.append({'key': 'prefix-errors-vs-flatten-up-to',
                          'what': f'flatten_up_to {"succeeds" if a else "raises ValueError"} but prefix_errors reports {len(r_pe[1])} error(s)'})
        if r_pe[0] == 'ok':
            for mk in r_pe[1]:
                e = outcome(lambda: mk('in_axes'))
                if e[0] != 'ok' or not isinstance(e[1], ValueError):
                    fails.append({'key': 'prefix-errors-message', 'what': f'error factory failed: {e}'})
        if a:
            subs = r_up[1]
            paths = sp.paths()
            if len(subs) != sp.num_leaves or len(paths) != len(subs):
                fails.append({'key': 'up-to-count', 'what': 'flatten_up_to result length differs from num_leaves'})
            else:
                for i, (path, sub) in enumerate(zip(paths, subs)):
                    try:
                        want = get_by_path(f, path, kw['namespace'])
                    except Exception as e:  # noqa: BLE001
                        fails.append({'key': 'up-to-path-missing', 'what': f'path {path!r} does not exist in the full tree: {e!r}'})
                        break
                    if want is not sub:
                        fails.append({'key': 'up-to-wrong-subtree', 'what': f'result {i} is not the subtree at path {path!r}'})
                        break
                got = []
                kw0 = dict(kw)
                for sub in subs:
                    got.extend(optree.tree_leaves(sub, **kw0))
                if sorted(map(id, got)) != sorted(map(id, leaves_f)) or len(got) != len(leaves_f):
                    fails.append({'key': 'up-to-partition', 'what': 'the returned subtrees do not partition the leaves of the full tree'})
        # order laws on the two treespecs
        le, ge = outcome(lambda: sp <= sf), outcome(lambda: sf >= sp)
        suf = outcome(lambda: sf.is_suffix(sp))
        lt, gt = outcome(lambda: sp < sf), outcome(lambda: sf > sp)
        back = outcome(lambda: sf <= sp)
        if any(r[0] == 'err' for r in (le, ge, suf, lt, gt, back)):
            fails.append({'key': 'comparison-raises', 'what': f'a rich comparison raised: {[r for r in (le, ge, suf, lt, gt, back) if r[0] == "err"][:1]}'})
        else:
            if not (le[1] == ge[1] == suf[1]) or (r_is[0] == 'ok' and le[1] != r_is[1]):
                fails.append({'key': 'converses', 'what': '<=, >= and is_suffix are not converses'})
            if lt[1] != gt[1] or lt[1] != (le[1] and not back[1]):
                fails.append({'key': 'strict', 'what': f'a < b is {lt[1]} but a <= b is {le[1]} and b <= a is {back[1]}'})
            if le[1] and back[1]:
                # antisymmetric up to dict kind / order and deque maxlen: same number of nodes and leaves
                if sp.num_nodes != sf.num_nodes or sp.num_leaves != sf.num_leaves:
                    fails.append({'key': 'antisymmetry', 'what': 'mutual prefixes with different sizes'})
        # the functional wrappers agree with the methods (both directions, strict and not)
        for strict in (False, True):
            w1, m1 = outcome(lambda: optree.treespec_is_prefix(sp, sf, strict=strict)), outcome(lambda: sp.is_prefix(sf, strict=strict))
            w2, m2 = outcome(lambda: optree.treespec_is_suffix(sf, sp, strict=strict)), outcome(lambda: sf.is_suffix(sp, strict=strict))
            w3, m3 = outcome(lambda: optree.treespec_is_suffix(sp, sf, strict=strict)), outcome(lambda: sf.is_prefix(sp, strict=strict))
            if w1[:2] != m1[:2] or w2[:2] != m2[:2] or w3[:2] != m3[:2] or (m1[0] == 'ok' and m2[0] == 'ok' and m1[1] != m2[1]):
                fails.append({'key': 'wrapper-is-prefix-suffix', 'what': f'treespec_is_prefix / treespec_is_suffix (strict={strict}) disagree with the methods',
                              'got': repr((w1, m1, w2, m2, w3, m3))[:300]})
        for s in (sp, sf):
            if not (s <= s) or (s < s):
                fails.append({'key': 'reflexive', 'what': 'a <= a is false or a < a is true'})
    return fails
