"""C08  Treespec inspection, constructors, transform and compose are consistent."""

from __future__ import annotations

from sexp import A, Atom, parse, render
from props.common import in_cfg, op, tree_distribution
from props.C06 import coll_of, children_of

RULE = ('random treespecs (all kinds as root, sibling-size patterns from {1,2,3,5}), every index in [-n-1, n], all '
        'constructors, transform with a menu of node / leaf functions, compose on pairs; distinct by request text; '
        'non-trivial = root is an internal node')


def sized(gen, n):
    if n <= 1:
        return gen.leaf(0)
    k = gen.rng.choice(['T', 'l'])
    return [A(k), *[gen.leaf(0) for _ in range(n - 1)]] if n > 2 else [A(k), gen.leaf(0)][:n]


def generate(gen, tier):
    rng = gen.rng
    n = 220 if tier == 'quick' else 7000
    cases = []
    import itertools
    patterns = []
    if tier == 'thorough':
        for k in range(0, 5):
            patterns.extend(itertools.product([1, 2, 3, 5], repeat=k))
    for i in range(n + len(patterns)):
        if i >= n:
            pat = patterns[i - n]
            kind = rng.choice(['T', 'l', 'O', 'Q'])
            kids = [sized_tree(gen, s) for s in pat]
            t = mk_node(gen, kind, kids)
        elif rng.random() < 0.35:
            pat = [rng.choice([1, 2, 3, 5]) for _ in range(rng.randrange(0, 5))]
            kind = rng.choice(['T', 'l', 'D', 'O', 'DD', 'Q', 'U'])
            t = mk_node(gen, kind, [sized_tree(gen, s) for s in pat])
        else:
            t = gen.tree(depth=rng.choice([2, 3]), width=rng.choice([3, 4]), leaf_p=0.0)
        if rng.random() < 0.25:
            t = gen.with_leafless(t, 0.4)
        cfg = gen.cfg(pred=rng.choice([0, 0, 0, 2, 6]))
        s = [A('structure'), cfg, t]
        nkids = len(children_of(t)) if not isinstance(t, Atom) else 0
        lines = [op('counts', s), op('children', s), op('entries', s), op('spec', [A('onelevel'), s]), op('repr', s),
                 op('paths', s)]
        for j in range(-nkids - 1, nkids + 1):
            lines.append(op('spec', [A('child'), s, j]))
            lines.append(op('entry', s, j))
        # transform / compose
        inner = gen.tree(depth=rng.choice([1, 2]), width=3, leaf_p=0.0)
        cfg_i = gen.cfg(ns=rng.choice([cfg[2], cfg[2], '', 'a']), nil=(cfg[1] == '1') if rng.random() < 0.9 else None,
                        pred=0, ordered=list(cfg[4]))
        si = [A('structure'), cfg_i, inner]
        lines += [op('spec', [A('transform'), s, 1, 1]), op('spec', [A('transform'), s, 0, 2, si]),
                  op('spec', [A('compose'), s, si]), op('repr', [A('compose'), s, si]),
                  op('spec', [A('transform'), s, rng.choice([2, 3, 4, 5]), rng.choice([0, 1, 3, 4])]),
                  op('is_enc', s), op('is_enc', [A('compose'), s, si]), op('is_enc', [A('transform'), s, 0, 2, si]),
                  op('is_enc', [A('onelevel'), s])]
        if nkids:
            lines.append(op('is_enc', [A('child'), s, rng.randrange(nkids)]))
        if not isinstance(t, Atom) and t[0] not in ('L',):
            kids = [[A('child'), s, j] for j in range(nkids)]
            coll = coll_of(t, cfg, kids)
            if coll is not None and t[0] not in ('D', 'DD'):
                ccfg = [A('cfg'), cfg[1], cfg[2], 0, cfg[4]]
                lines.append(op('spec', [A('fromcoll'), ccfg, coll]))
                lines.append(op('eq', [A('fromcoll'), ccfg, coll], s))
        cases.append({'lines': lines, 'o': {'cfg': render(cfg), 'tree': render(t), 'inner': render(inner),
                                            'cfg_i': render(cfg_i)}})
    # constructor corner cases
    for nil in ('0', '1'):
        base = [A('cfg'), A(nil), '', 0, []]
        leaf, none = [A('leafspec'), A(nil)], [A('nonespec'), A(nil)]
        colls = [A('cN'), [A('cX')], [A('cBAD')], [A('cT')], [A('cT'), leaf, none], [A('cQ'), 1, leaf, none, leaf],
                 [A('cD'), [[A('s'), 'b'], leaf], [[A('i'), 1], none]], [A('cDD'), 0, [[A('s'), 'b'], leaf]],
                 [A('cNT'), 0, leaf, leaf], [A('cSS'), 0, leaf, none], [A('cU'), 0, A('N'), A('ok'), leaf],
                 [A('cU'), 2, [A('i'), 1], A('ok'), leaf], [A('cU'), 5, A('N'), A('ok'), leaf],
                 [A('cU'), 1, A('N'), A('ent+'), leaf], [A('cU'), 0, A('N'), A('len4'), leaf],
                 [A('cT'), [A('structure'), [A('cfg'), A(nil), 'a', 0, []], [A('U'), 2, A('N'), A('ok'), [A('L'), 0, 1]]],
                  [A('structure'), [A('cfg'), A(nil), 'b', 0, []], [A('U'), 4, A('N'), A('ok'), [A('L'), 0, 2]]]],
                 [A('cT'), [A('leafspec'), A('1' if nil == '0' else '0')]]]
        for ns in ('', 'a', 'zz'):
            for coll in colls:
                c = [A('cfg'), A(nil), ns, 0, []]
                cases.append({'lines': [op('spec', [A('fromcoll'), c, coll])], 'o': None})
    return cases


def sized_tree(gen, n):
    """a subtree with exactly n nodes"""
    if n == 1:
        return gen.leaf(0)
    if n == 2:
        return [A(gen.rng.choice(['T', 'l'])), gen.leaf(0)]
    if n == 3:
        return gen.rng.choice([[A('T'), gen.leaf(0), gen.leaf(0)], [A('l'), [A('T'), gen.leaf(0)]]])
    return [A('T'), [A('l'), gen.leaf(0), gen.leaf(0)], gen.leaf(0)]      # 5 nodes


def mk_node(gen, kind, kids):
    if kind in ('T', 'l'):
        return [A(kind), *kids]
    if kind in ('D', 'O'):
        ks = gen.keyset(len(kids))
        return [A(kind), *[[k, c] for k, c in zip(ks, kids)]]
    if kind == 'DD':
        ks = gen.keyset(len(kids))
        return [A('DD'), 1, *[[k, c] for k, c in zip(ks, kids)]]
    if kind == 'Q':
        return [A('Q'), A('N'), *kids]
    return [A('U'), gen.rng.choice([0, 1, 3, 6]), gen.md(), A('ok'), *kids]


def nontrivial(case):
    if not case.get('o'):
        return True
    t = parse(case['o']['tree'])
    return not isinstance(t, Atom) and t[0] != 'L'


def distribution(cases):
    return tree_distribution([c for c in cases if c.get('o')])


def outcome(f):
    try:
        return ('ok', f())
    except Exception as e:  # noqa: BLE001
        return ('err', type(e).__name__)


def oracle(impl, o):
    import optree
    from collections import OrderedDict, defaultdict, deque
    u = impl.u
    fails = []
    tree = u.obj(parse(o['tree']))
    with in_cfg(impl, o['cfg']) as kw:
        try:
            leaves, spec = optree.tree_flatten(tree, **kw)
        except Exception:
            return []
        nil, ns = kw['none_is_leaf'], kw['namespace']
        children = spec.children()
        n = spec.num_children
        if len(children) != n or len(spec) != spec.num_leaves:
            fails.append({'key': 'num-children', 'what': 'len(children()) != num_children or len() != num_leaves'})
        if not spec.is_leaf():
            if sum(c.num_leaves for c in children) != spec.num_leaves or \
                    sum(c.num_nodes for c in children) + 1 != spec.num_nodes:
                fails.append({'key': 'counts-sum', 'what': "children's counts do not sum to the parent's"})
        entries = spec.entries()
        if len(entries) != n:
            fails.append({'key': 'entries-len', 'what': 'len(entries()) != num_children'})
        for j in range(-n - 1, n + 1):
            rc, re_ = outcome(lambda: spec.child(j)), outcome(lambda: spec.entry(j))
            if -n <= j < n:
                if rc[0] != 'ok' or rc[1] != children[j] or render(u.enc_spec(rc[1])) != render(u.enc_spec(children[j])):
                    fails.append({'key': 'child-index', 'what': f'child({j}) differs from children()[{j}]'})
                if re_[0] != 'ok' or not _same(re_[1], entries[j]):
                    fails.append({'key': 'entry-index', 'what': f'entry({j}) differs from entries()[{j}]'})
            else:
                if rc != ('err', 'IndexError') or re_ != ('err', 'IndexError'):
                    fails.append({'key': 'index-error', 'what': f'child/entry({j}) out of range gives {rc[:2]} / {re_[:2]}'})
        # the root described by the treespec is the root of the tree
        is_leaf_root = len(leaves) == 1 and leaves[0] is tree
        if spec.is_leaf() != is_leaf_root:
            fails.append({'key': 'is-leaf', 'what': 'treespec.is_leaf() disagrees with the tree'})
        if not is_leaf_root and tree is not None:
            if spec.type is not type(tree):
                fails.append({'key': 'type', 'what': f'treespec.type is {spec.type}, tree root is {type(tree)}'})
        one = spec.one_level()
        if one is not None:
            if not one.is_one_level() or one.num_children != n or one.num_leaves != n or one.kind != spec.kind \
                    or one.type is not spec.type or one.entries() != entries:
                fails.append({'key': 'one-level', 'what': 'one_level() does not describe the same root'})
            # rebuild via transform
            it = iter(children)
            rebuilt = outcome(lambda: one.transform(None, lambda leafspec: next(it)))
            if rebuilt[0] != 'ok' or rebuilt[1] != spec or _paths(rebuilt[1]) != _paths(spec):
                fails.append({'key': 'rebuild-transform', 'what': 'one_level().transform(children) does not give back an equal treespec with equal paths',
                              'got': repr(rebuilt[1])[:300], 'want': repr(spec)[:300]})
        elif not spec.is_leaf():
            fails.append({'key': 'one-level-none', 'what': 'one_level() is None for a non-leaf'})
        # rebuild via the constructors
        if not is_leaf_root and tree is not None:
            t = type(tree)
            ckw = {'none_is_leaf': nil, 'namespace': ns}
            coll = None
            variants = []
            with impl.ordered([]):
                pass
            if t is tuple:
                coll = tuple(children)
                variants.append(lambda: optree.treespec_tuple(children, **ckw))
            elif t is list:
                coll = list(children)
                variants.append(lambda: optree.treespec_list(children, **ckw))
            elif t is dict:
                coll = dict(zip(entries, children))
                coll = {k: coll[k] for k in tree}          # original insertion order
                variants.append(lambda: optree.treespec_dict(coll, **ckw))
            elif t is OrderedDict:
                coll = OrderedDict(zip(entries, children))
                variants.append(lambda: optree.treespec_ordereddict(coll, **ckw))
            elif t is defaultdict:
                d = dict(zip(entries, children))
                coll = defaultdict(tree.default_factory, {k: d[k] for k in tree})
                variants.append(lambda: optree.treespec_defaultdict(tree.default_factory, {k: d[k] for k in tree}, **ckw))
            elif t is deque:
                coll = deque(children, maxlen=tree.maxlen)
                variants.append(lambda: optree.treespec_deque(children, maxlen=tree.maxlen, **ckw))
            elif optree.is_namedtuple(tree) and spec.kind == optree.PyTreeKind.NAMEDTUPLE:
                coll = t(*children)
                variants.append(lambda: optree.treespec_namedtuple(coll, **ckw))
            elif optree.is_structseq(tree) and spec.kind == optree.PyTreeKind.STRUCTSEQUENCE:
                coll = t(tuple(children))
                variants.append(lambda: optree.treespec_structseq(coll, **ckw))
            elif spec.kind == optree.PyTreeKind.CUSTOM and hasattr(tree, 'children'):
                coll = t(tree.md, children, 'ok')
            # the constructors normalise their input: any iterable / mapping type holding the same children in the
            # same order builds the same node (the node kind comes from the constructor, not from the argument)
            if t in (tuple, list, deque):
                ctor = {tuple: optree.treespec_tuple, list: optree.treespec_list,
                      deque: lambda it, **k: optree.treespec_deque(it, maxlen=tree.maxlen, **k)}[t]
                class _TupleSub(tuple):
                    pass

                class _ListSub(list):
                    pass
                import collections as _c
                _NT = _c.namedtuple('_NT', [f'f{i}' for i in range(len(children))])
                for name, arg in (('tuple subclass', lambda: _TupleSub(children)), ('list subclass', lambda: _ListSub(children)),
                                  ('namedtuple', lambda: _NT(*children)),
                                  ('list', lambda: list(children)), ('tuple', lambda: tuple(children)),
                                  ('generator', lambda: (c for c in children)), ('deque', lambda: deque(children)),
                                  ('dict keys view', lambda: {c: None for c in children}.keys() if len({id(c) for c in children}) == len(children) and len(set(children)) == len(children) else list(children))):
                    variants.append(lambda arg=arg: ctor(arg(), **ckw))
            elif t in (dict, OrderedDict, defaultdict):
                pairs = [(k, dict(zip(entries, children))[k]) for k in (tree if t is not OrderedDict else entries)]

                class _DictSub(dict):
                    pass
                ctor = {dict: optree.treespec_dict, OrderedDict: optree.treespec_ordereddict,
                      defaultdict: lambda m, **k: optree.treespec_defaultdict(tree.default_factory, m, **k)}[t]
                shapes = [lambda: dict(pairs), lambda: OrderedDict(pairs), lambda: defaultdict(int, pairs),
                          lambda: list(pairs), lambda: iter(pairs), lambda: _DictSub(pairs)]
                if t is not OrderedDict:
                    # sorted kinds: the order of the argument does not matter either
                    # (only for key sets whose order does not depend on the insertion order: no keys tied under <)
                    from props.C02 import ref_total_order
                    ks_ = [k for k, _ in pairs]
                    indep = [id(k) for k in ref_total_order(ks_)] == [id(k) for k in ref_total_order(list(reversed(ks_)))]
                    if indep and not bool(optree._C.is_dict_insertion_ordered(ns)):
                        shapes += [lambda: OrderedDict(reversed(pairs)), lambda: dict(reversed(pairs))]
                for arg in shapes:
                    variants.append(lambda arg=arg: ctor(arg(), **ckw))
                if pairs and all(type(k) is str and k.isidentifier() for k, _ in pairs) and t is not OrderedDict:
                    variants.append(lambda: ctor((), **dict(pairs), **ckw) if t is not defaultdict else optree.treespec_defaultdict(tree.default_factory, (), **dict(pairs), **ckw))
            if coll is not None:
                variants.append(lambda: optree.treespec_from_collection(coll, **ckw))
                for mk in variants:
                    r = outcome(mk)
                    if r[0] != 'ok' or r[1] != spec or _paths(r[1]) != _paths(spec) or r[1].kind != spec.kind \
                            or r[1].type is not spec.type:
                        fails.append({'key': 'rebuild-constructor', 'what': 'constructor applied to the children does not give back an equal treespec with equal paths',
                                      'got': repr(r[1])[:300], 'want': repr(spec)[:300]})
                        break
        # the functional wrappers of ops.py say what the methods say (index by index, error by error)
        fails += _wrappers(optree, u, spec, n)
        # transform identity / compose
        r = outcome(lambda: spec.transform(lambda s: s, lambda s: s))
        if r[0] != 'ok' or r[1] != spec or render(u.enc_spec(r[1])) != render(u.enc_spec(spec)):
            fails.append({'key': 'transform-identity', 'what': 'transform with identity functions is not the identity'})
        inner_tree = u.obj(parse(o['inner']))
    with in_cfg(impl, o['cfg_i']) as kwi:
        try:
            inner = optree.tree_structure(inner_tree, **kwi)
        except Exception:
            return fails
    rc = outcome(lambda: spec.compose(inner))
    rt = outcome(lambda: spec.transform(None, lambda s: inner))
    if (rc[0] != rt[0] and spec.num_leaves > 0) or (rc[0] == 'ok' and rt[0] == 'ok' and (rc[1] != rt[1] or _paths(rc[1]) != _paths(rt[1]))):
        fails.append({'key': 'transform-vs-compose', 'what': 'transform(leaf -> s) differs from compose(s)',
                      'compose': repr(rc[1])[:200], 'transform': repr(rt[1])[:200]})
    if rc[0] == 'ok':
        c = rc[1]
        if c.num_leaves != spec.num_leaves * inner.num_leaves:
            fails.append({'key': 'compose-leaves', 'what': 'num_leaves of a.compose(b) is not the product'})
        # structure of an a-shaped tree whose every leaf is a b-shaped tree
        from universe import Lf
        try:
            subtrees = [inner.unflatten([Lf(-1)] * inner.num_leaves) for _ in range(spec.num_leaves)]
            big = spec.unflatten(subtrees)
        except Exception:
            big = None
        # (mixed-namespace compositions are excluded: a class may be registered differently in the two)
        if big is not None and inner.num_nodes > 1 and kw['is_leaf'] is None \
                and parse(o['cfg'])[2] == parse(o['cfg_i'])[2]:
            kw2 = {'none_is_leaf': c.none_is_leaf, 'namespace': c.namespace}
            with impl.ordered(list(parse(o['cfg'])[4])):
                got = outcome(lambda: optree.tree_structure(big, **kw2))
            if got[0] == 'ok' and got[1] != c and _sortable_everywhere(c):
                fails.append({'key': 'compose-structure', 'what': 'a.compose(b) is not the structure of an a-shaped tree of b-shaped trees',
                              'compose': repr(c)[:300], 'structure': repr(got[1])[:300]})
    elif rc[0] == 'err' and rc[1] != 'ValueError':
        fails.append({'key': 'compose-error-type', 'what': f'compose raised {rc[1]}'})
    # repr: as many '*' as leaves, NoneIsLeaf / namespace suffixes
    text = repr(spec)
    if not text.startswith('PyTreeSpec(') or (', NoneIsLeaf' in text) != spec.none_is_leaf or \
            (', namespace=' in text) != bool(spec.namespace):
        fails.append({'key': 'repr-affixes', 'what': 'repr lacks / has wrong NoneIsLeaf / namespace suffixes', 'repr': text[:200]})
    return fails


def _wrappers(optree, u, spec, n):
    fails = []

    def enc(v):
        if isinstance(v, optree.PyTreeSpec):
            return render(u.enc_spec(v))
        if isinstance(v, (list, tuple)) and v and isinstance(v[0], optree.PyTreeSpec):
            return [render(u.enc_spec(x)) for x in v]
        return repr(v)

    def same(a, b):
        if a[0] != b[0]:
            return False
        if a[0] == 'err':
            return a[1] == b[1]
        return enc(a[1]) == enc(b[1])

    pairs = [
        ('treespec_paths', lambda: optree.treespec_paths(spec), lambda: spec.paths()),
        ('treespec_accessors', lambda: optree.treespec_accessors(spec), lambda: spec.accessors()),
        ('treespec_entries', lambda: optree.treespec_entries(spec), lambda: spec.entries()),
        ('treespec_children', lambda: optree.treespec_children(spec), lambda: spec.children()),
        ('treespec_one_level', lambda: optree.treespec_one_level(spec), lambda: spec.one_level()),
        ('treespec_is_leaf', lambda: optree.treespec_is_leaf(spec), lambda: spec.is_leaf()),
        ('treespec_is_leaf(strict=False)', lambda: optree.treespec_is_leaf(spec, strict=False), lambda: spec.is_leaf(strict=False)),
        ('treespec_is_strict_leaf', lambda: optree.treespec_is_strict_leaf(spec), lambda: spec.is_leaf(strict=True)),
        ('treespec_is_one_level', lambda: optree.treespec_is_one_level(spec), lambda: spec.is_one_level()),
        ('treespec_transform', lambda: optree.treespec_transform(spec, lambda x: x, lambda x: x), lambda: spec.transform(lambda x: x, lambda x: x)),
    ]
    for j in range(-n - 1, n + 1):
        pairs.append((f'treespec_child({j})', lambda j=j: optree.treespec_child(spec, j), lambda j=j: spec.child(j)))
        pairs.append((f'treespec_entry({j})', lambda j=j: optree.treespec_entry(spec, j), lambda j=j: spec.entry(j)))
    for name, w, m in pairs:
        a, b = outcome(w), outcome(m)
        if not same(a, b):
            fails.append({'key': 'wrapper-' + name.split('(')[0], 'what': f'optree.{name} disagrees with the PyTreeSpec method',
                          'wrapper': repr(a)[:200], 'method': repr(b)[:200]})
    return fails


def _same(a, b):
    return a is b or a == b


def _paths(s):
    return [tuple(('o', e.uid) if (not isinstance(e, (int, str, tuple)) and hasattr(e, 'uid')) else e for e in p)
            for p in s.paths()]


def _sortable_everywhere(spec):
    return True
