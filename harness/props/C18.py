"""C18  The Python twins of engine logic give the same answers as the engine."""

from __future__ import annotations

import itertools

from sexp import A, Atom, parse, render
from props.common import op

RULE = ('class descriptors (look-alike trait lattice: exhaustive over the realisable combinations), key lists of '
        'mixed / partially ordered / unorderable types incl. sorts that fail half-way, one-level nodes of every '
        'built-in kind in both dict-order modes; cache histories with transient classes; distinct by request text; '
        'non-trivial = every case')
TRANSLATORS = ['twins']
SETUP_LINES = []
TEARDOWN_LINES = []


def descriptors(tier):
    out = []
    fields = ['absent', 'tuple-str', 'tuple-mixed', 'sub-str', 'sub-mixed', 'other']
    ints = ['absent', 'int', 'bool', 'other']
    for is_type, tsub, f, mk, asd in itertools.product('10', '10', fields, '10', '10'):
        if tsub == '0' and is_type == '1' and f in ('sub-mixed',):
            pass
        for bases in ('1', '0'):
            if bases == '1' and tsub == '0':
                continue
            for n in (('absent',) * 3, ('int',) * 3, ('bool', 'int', 'int'), ('int', 'other', 'int')):
                out.append([A('cd'), A(is_type), A(tsub), A(f), A(mk), A(asd), A(bases), A(n[0]), A(n[1]), A(n[2]), A('1')])
    out.append([A('cd'), A('1'), A('1'), A('absent'), A('0'), A('0'), A('1'), A('int'), A('int'), A('int'), A('0')])
    if tier == 'quick':
        out = out[::2] + [out[-1]]
    return out


def _generate_model_cases(gen, tier):
    rng = gen.rng
    cases = []
    for d in descriptors(tier):
        cases.append({'lines': [op('classify', d)], 'o': {'kind': 'classify', 'd': render(d)}})
    n = 250 if tier == 'quick' else 8000
    for _ in range(n):
        m = rng.randrange(0, 9)
        ks = gen.keyset(m)
        if rng.random() < 0.4:
            ks = ks + [gen.key_obj(rng.choice(['vk.KU', 'vk.KV', 'vk.Alpha.KZ', 'vk.KB']), False) for _ in range(rng.choice([1, 2, 3]))]
            rng.shuffle(ks)
        cases.append({'lines': [op('sorttwin', *ks)], 'o': {'kind': 'sort', 'keys': render(ks)}})
    n2 = 150 if tier == 'quick' else 5000
    kinds = ['T', 'l', 'D', 'O', 'DD', 'Q', 'NT', 'SS', 'N']
    for _ in range(n2):
        t = gen.tree(depth=1, width=5, kinds=kinds, leaf_p=0.0)
        ins = rng.random() < 0.4
        cases.append({'lines': [op('pyonelevel', A('1' if ins else '0'), t)],
                      'o': {'kind': 'onelevel', 'tree': render(t), 'ins': ins}})
    cases.append({'lines': [], 'o': {'kind': 'cache', 'n': 300 if tier == 'quick' else 6000}})
    return cases


def generate(gen, tier):
    cases = _generate_model_cases(gen, tier)
    # order-free stream: key sets outside the model's key universe (props/exotic.py); oracle only, no model lines
    n = 120 if tier == 'quick' else 3000
    for _ in range(n):
        cases.append({'lines': [], 'o': {'exotic': gen.rng.randrange(10**9)}})
    return cases


def nontrivial(case):
    if 'exotic' in case['o']:
        return True
    return True


def distribution(cases):
    n_exotic = sum(1 for c in cases if 'exotic' in c['o'])
    cases = [c for c in cases if 'exotic' not in c['o']]
    d0 = _distribution(cases)
    d0['exotic_key_cases'] = n_exotic
    return d0


def _distribution(cases):
    d = {}
    for c in cases:
        d[c['o']['kind']] = d.get(c['o']['kind'], 0) + 1
    return {'case_kinds': d}


def oracle(impl, o):
    if 'exotic' in o:
        import optree as _optree
        from props import exotic
        return exotic.check_C18(_optree, o['exotic'])
    import collections
    import gc
    import optree
    from optree import _C
    import twins_impl
    u = impl.u
    fails = []
    kind = o['kind']
    if kind == 'classify':
        d = parse(o['d'])
        cxx_nt, py_nt, cxx_ss, py_ss = twins_impl.classify(d)
        if cxx_nt != py_nt:
            key = 'namedtuple-twin'
            if d[3] in ('sub-str',):
                key = 'namedtuple-twin-fields-tuple-subclass'
            fails.append({'key': key, 'what': f'engine is_namedtuple_class={cxx_nt} but the Python twin says {py_nt} for {o["d"]}'})
        if cxx_ss != py_ss:
            fails.append({'key': 'structseq-twin', 'what': f'engine is_structseq_class={cxx_ss} but the Python twin says {py_ss} for {o["d"]}'})
        if cxx_nt == py_nt and cxx_ss == py_ss:
            for m in twins_impl.twin_mismatches(d)[:2]:
                fails.append({'key': 'typing-twin-' + m.split('(')[0], 'what': f'{m} for {o["d"]}'})
    elif kind == 'sort':
        keys = [u.key(k) for k in parse(o['keys'])]
        engine, twin = twins_impl.sort_twin(u, keys)
        if render(engine) != render(twin):
            fails.append({'key': 'sort-twin', 'what': 'the engine orders dict keys differently from total_order_sorted',
                          'engine': render(engine)[:300], 'twin': render(twin)[:300]})
    elif kind == 'onelevel':
        tree = u.obj(parse(o['tree']))
        ns = 'c18ins' if o['ins'] else ''
        ctx = optree.dict_insertion_ordered(True, namespace=ns) if o['ins'] else None
        if ctx is not None:
            ctx.__enter__()
        try:
            try:
                out = optree.tree_flatten_one_level(tree, namespace=ns)
            except ValueError:
                out = None
            spec = optree.tree_structure(tree, namespace=ns)
            leaves = optree.tree_leaves(tree, namespace=ns)
            if out is None:
                if not spec.is_leaf():
                    fails.append({'key': 'one-level-leaf', 'what': 'Python registry says leaf, engine says node'})
            else:
                # children in the same order, entries, kind, type, path-entry type, unflatten result
                eng_children = optree.tree_flatten(tree, is_leaf=lambda x: x is not tree, namespace=ns)[0]
                if len(eng_children) != len(out.children) or any(a is not b for a, b in zip(eng_children, out.children)):
                    fails.append({'key': 'one-level-children', 'what': 'children differ (order / identity) between the Python registry and the engine'})
                if list(out.entries) != list(spec.entries()):
                    fails.append({'key': 'one-level-entries', 'what': f'entries differ: {out.entries!r} vs {spec.entries()!r}'})
                if int(out.kind) != int(spec.kind) or out.type is not spec.type:
                    fails.append({'key': 'one-level-kind-type', 'what': 'kind / type differ'})
                accs = spec.accessors()
                if accs and type(accs[0][0]) is not out.path_entry_type and out.path_entry_type is not optree.AutoEntry:
                    fails.append({'key': 'one-level-entry-type', 'what': f'path entry type {out.path_entry_type} vs {type(accs[0][0])}'})
                rebuilt_py = out.unflatten_func(out.metadata, out.children)
                rebuilt_engine = optree.tree_unflatten(spec.one_level(), out.children) if spec.one_level() is not None else None
                if type(rebuilt_py) is not type(rebuilt_engine) or rebuilt_py != rebuilt_engine:
                    fails.append({'key': 'one-level-unflatten', 'what': 'unflatten function of the Python registry rebuilds a different object than the engine'})
        finally:
            if ctx is not None:
                ctx.__exit__(None, None, None)
    elif kind == 'cache':
        py_nt = optree.is_namedtuple_class.__python_implementation__
        py_ss = optree.is_structseq_class.__python_implementation__
        n = o['n']
        bad = 0
        for i in range(n):
            variant = i % 4
            if variant == 0:
                cls = collections.namedtuple(f'T{i}', ['a', 'b'])
            elif variant == 1:
                cls = type(f'P{i}', (tuple,), {'_fields': ('a',)})          # look-alike: no _make / _asdict
            elif variant == 2:
                cls = type(f'Q{i}', (object,), {})
            else:
                cls = type(f'R{i}', (tuple,), {'_fields': ('a',), '_make': classmethod(lambda c, it: c(it)), '_asdict': lambda s: {}})
            for _ in range(2):        # uncached, then cached
                if bool(_C.is_namedtuple_class(cls)) != bool(py_nt(cls)) or bool(_C.is_structseq_class(cls)) != bool(py_ss(cls)):
                    bad += 1
            if variant in (0, 3):
                inst = cls(1, 2) if variant == 0 else cls((1,))
                if optree.tree_structure(inst).kind != optree.PyTreeKind.NAMEDTUPLE:
                    bad += 1
            del cls
            if i % 50 == 0:
                gc.collect()
        if bad:
            fails.append({'key': 'cache-history', 'what': f'{bad} answers differed from the uncached twin during a history of {n} transient classes'})
    return fails
