"""C12  Registry changes are namespace-isolated, atomic and reversible."""

from __future__ import annotations

import itertools

from sexp import A, Atom, parse, render
from props.common import op

RULE = ('histories of register_pytree_node / register_pytree_node_class / unregister_pytree_node over a class universe '
        '(plain class, subclass, namedtuple class, struct sequence, built-ins, a non-class) x namespaces {global '
        'sentinel, a, b, empty string} x faults (bad path-entry type) x warnings-as-errors on/off, also switched between two calls of one history; exhaustive up to a '
        'length bound over a reduced alphabet, sampled beyond; after every call the engine (both none_is_leaf '
        'settings) and register_pytree_node.get (with and without a class) are observed in every namespace; distinct '
        'by history text; non-trivial = at least 2 calls')
SETUP_LINES = []
TEARDOWN_LINES = []

NS = [A('G'), 'a', 'b', A('E')]


def alphabet(full=True):
    ops = []
    classes = [0, 1, 2, 3, 4, 7, 8] if full else [0, 2]
    nss = NS if full else [A('G'), 'a']
    for c in classes:
        for ns in nss:
            ops.append([A('reg'), c, ns, A('0')])
            ops.append([A('unreg'), c, ns])
    if full:
        ops.append([A('reg'), 0, 'a', A('1')])
        for c in (0, 1, 8, 2, 7):
            ops.append([A('regc'), c, 'b'])
        ops.append([A('regc'), 0, A('E')])
    return ops


def generate(gen, tier):
    rng = gen.rng
    cases = []
    small = alphabet(False)
    depth = 3 if tier == 'quick' else 4
    for n in range(1, depth + 1):
        for hist in itertools.product(small, repeat=n):
            if tier == 'quick' and n == 3 and rng.random() < 0.5:
                continue
            for warn in ('0', '1'):
                cases.append(mk(warn, hist))
    # warning-raising classes (namedtuple, struct sequence) with the filter flipped between calls: a registration
    # that succeeded silently, then one of the same class elsewhere that is rolled back (and the reverse)
    wcls = (2, 3)
    for c in wcls:
        for ns1, ns2 in itertools.permutations(NS, 2):
            for w1, w2 in (('0', '1'), ('1', '0')):
                for tail in ([], [[A('unreg'), c, ns1]], [[A('unreg'), c, ns2]], [[A('reg'), c, ns2, A('0')]]):
                    cases.append(mk(w1, [[A('reg'), c, ns1, A('0')], [A('warn'), A(w2)], [A('reg'), c, ns2, A('0')],
                                         *tail]))
    full = alphabet(True)
    n = 250 if tier == 'quick' else 8000
    for _ in range(n):
        hist = []
        live = []
        for _ in range(rng.randrange(2, 9 if tier == 'quick' else 13)):
            c = rng.random()
            if rng.random() < 0.15:
                hist.append([A('warn'), A(rng.choice('01'))])    # the filter changes inside the history
            if c < 0.25 and live:
                cl, ns = rng.choice(live)
                hist.append([A('unreg'), cl, ns])
            elif c < 0.4 and live:
                cl, ns = rng.choice(live)
                hist.append([A('reg'), cl, ns, A('0')])          # duplicate
            else:
                o = rng.choice(full)
                hist.append(o)
                if o[0] in ('reg', 'regc'):
                    live.append((o[1], o[2]))
        cases.append(mk(rng.choice('01'), hist))
    return cases


def mk(warn, hist):
    return {'lines': [op('regsm', A(warn), *hist)], 'o': {'warn': warn, 'hist': render(list(hist))}}


def nontrivial(case):
    return len(parse(case['o']['hist'])) >= 2


def distribution(cases):
    lens, kinds = {}, {}
    for c in cases:
        h = parse(c['o']['hist'])
        lens[len(h)] = lens.get(len(h), 0) + 1
        for o in h:
            if o[0] == 'warn':
                kinds['warn'] = kinds.get('warn', 0) + 1
                continue
            k = f'{o[0]} cls={o[1]} ns={o[2]}'
            kinds[k] = kinds.get(k, 0) + 1
    return {'history_lengths': lens, 'distinct_ops': len(kinds),
            'histories_changing_the_warnings_filter': sum(1 for c in cases if '(warn' in c['o']['hist']),
            'warnings_as_errors': sum(1 for c in cases if c['o']['warn'] == '1')}


def oracle(impl, o):
    """the property evaluated directly on the implementation's observations"""
    import regsm_impl
    hist = parse(o['hist'])
    steps = regsm_impl.run(o['warn'] == '1', hist)
    fails = []
    prev = None
    live: dict[tuple[int, str], int] = {}        # what *should* be registered: (cls, ns key) -> rid
    for i, (opx, (res, obs)) in enumerate(zip(hist, steps)):
        rows = {}
        k = 0
        for c in regsm_impl.OBS_CLASSES:
            for ns in regsm_impl.OBS_NS:
                rows[(c, ns)] = obs[k]
                k += 1
        # 1. engine (both variants) and Python-visible registry agree
        for (c, ns), (e_node, e_leaf, g, gall) in rows.items():
            if render(e_node) != render(e_leaf):
                fails.append({'key': 'variants-disagree', 'what': f'step {i}: none_is_leaf variants classify class {c} in {ns!r} differently'})
            if render(e_node) != render(g):
                fails.append({'key': 'get-vs-flatten', 'what': f'step {i} ({render(opx)}): register_pytree_node.get(cls {c}, namespace={ns!r}) = {render(g)} but flatten uses {render(e_node)}'})
            want_all = render(e_node) if (not isinstance(e_node, Atom)) else '-'
            if render(gall) != want_all:
                fails.append({'key': 'getall-vs-flatten', 'what': f'step {i} ({render(opx)}): register_pytree_node.get(namespace={ns!r})[cls {c}] = {render(gall)} but flatten uses {render(e_node)}'})
        # 2. atomicity: a call that raised changed nothing
        if res != 'ok' and prev is not None and render(obs) != render(prev):
            fails.append({'key': 'not-atomic', 'what': f'step {i}: {render(opx)} raised {res} but the registry changed'})
        if res != 'ok' and prev is None and any(not isinstance(r[0], Atom) for r in obs):
            fails.append({'key': 'not-atomic', 'what': f'step {i}: {render(opx)} raised {res} but the registry changed'})
        # 3. exception types
        if res not in ('ok', 'TypeError', 'ValueError', 'AttributeError', 'UserWarning'):
            fails.append({'key': f'unexpected-exception-{res}', 'what': f'step {i}: {render(opx)} raised {res}'})
        # 4. reference semantics: registered in N or globally, N shadowing global
        if opx[0] == 'warn':
            if prev is not None and render(obs) != render(prev):
                fails.append({'key': 'filter-change-changed-registry', 'what': f'step {i}: changing the warnings filter changed the registry'})
            prev = obs
            continue
        kind, c, ns = opx[0], int(opx[1]), opx[2]
        nskey = '' if (isinstance(ns, Atom) and ns == 'G') else str(ns)
        if res == 'ok':
            if kind in ('reg', 'regc'):
                if (c, nskey) in live:
                    fails.append({'key': 'double-registration', 'what': f'step {i}: {render(opx)} succeeded twice'})
                live[(c, nskey)] = i
            else:
                if (c, nskey) not in live:
                    fails.append({'key': 'unregister-absent-ok', 'what': f'step {i}: {render(opx)} succeeded but nothing was registered'})
                live.pop((c, nskey), None)
        for (cc, n2), (e_node, _, _, _) in rows.items():
            want = live.get((cc, n2)) if n2 else None
            if want is None:
                want = live.get((cc, ''))
            got = int(e_node[1]) if not isinstance(e_node, Atom) else None
            if got != want:
                fails.append({'key': 'wrong-registration-used', 'what': f'step {i}: class {cc} in namespace {n2!r}: flatten uses registration {got}, expected {want}'})
        prev = obs
    return fails
