"""Build optree's C++ extension from /repo's *current working tree* into a scratch package.

The scratch directory lives outside /repo and /verif (default /var/tmp/optree-verif, override with
VERIF_SCRATCH), is keyed by a hash of the sources (include/, src/, optree/**/*.py) and is recreated
whenever it is missing.  /repo/optree/_C*.so is never used and never touched.

pybind11 is not installed as a package in /venv; its headers ship inside torch.
"""

from __future__ import annotations

import fcntl
import hashlib
import os
import shutil
import subprocess
import sys
import sysconfig
import time
from concurrent.futures import ThreadPoolExecutor
from pathlib import Path

REPO = Path(os.environ.get('VERIF_REPO', '/repo'))
SCRATCH = Path(os.environ.get('VERIF_SCRATCH', '/var/tmp/optree-verif'))
PYTHON = os.environ.get('VERIF_PYTHON', '/venv/bin/python')
KEEP_BUILDS = 3


def _py_include() -> str:
    out = subprocess.run(
        [PYTHON, '-c', "import sysconfig;print(sysconfig.get_paths()['include'])"],
        capture_output=True, text=True, check=True,
    )
    return out.stdout.strip()


def _pybind_include() -> str:
    out = subprocess.run(
        [PYTHON, '-c',
         'import importlib.util,os;s=importlib.util.find_spec("torch");'
         'print(os.path.join(os.path.dirname(s.origin),"include"))'],
        capture_output=True, text=True, check=True,
    )
    return out.stdout.strip()


def _ext_suffix() -> str:
    out = subprocess.run(
        [PYTHON, '-c', "import sysconfig;print(sysconfig.get_config_var('EXT_SUFFIX'))"],
        capture_output=True, text=True, check=True,
    )
    return out.stdout.strip()


def source_files() -> list[Path]:
    files: list[Path] = []
    for sub, pat in (('include', '**/*.h'), ('src', '**/*.cpp'), ('optree', '**/*.py'),
                     ('optree', '**/*.pyi'), ('optree', 'py.typed')):
        files.extend(sorted((REPO / sub).glob(pat)))
    return [f for f in files if f.is_file()]


def source_hash(extra: str = '') -> str:
    h = hashlib.sha256()
    h.update(extra.encode())
    for f in source_files():
        h.update(str(f.relative_to(REPO)).encode())
        h.update(b'\0')
        h.update(f.read_bytes())
        h.update(b'\0')
    return h.hexdigest()[:20]


def build(sanitize: bool = False, verbose: bool = False) -> Path:
    """Return the directory to put on PYTHONPATH (contains the package `optree`)."""
    flavour = 'asan' if sanitize else 'plain'
    key = source_hash(flavour)
    root = SCRATCH / 'builds'
    root.mkdir(parents=True, exist_ok=True)
    target = root / f'{flavour}-{key}'
    lock_path = SCRATCH / 'build.lock'
    with open(lock_path, 'w') as lock:
        fcntl.flock(lock, fcntl.LOCK_EX)
        if (target / 'optree' / '.complete').exists():
            os.utime(target)
            return target
        t0 = time.time()
        tmp = root / f'.tmp-{flavour}-{key}-{os.getpid()}'
        if tmp.exists():
            shutil.rmtree(tmp)
        pkg = tmp / 'optree'
        obj = tmp / 'obj'
        obj.mkdir(parents=True)
        # python sources
        for f in (REPO / 'optree').rglob('*'):
            if f.is_file() and f.suffix in ('.py', '.pyi', '.typed'):
                dest = pkg / f.relative_to(REPO / 'optree')
                dest.parent.mkdir(parents=True, exist_ok=True)
                shutil.copy2(f, dest)
        cxx = 'g++'
        flags = ['-std=c++20', '-O1', '-fPIC', '-fvisibility=hidden', '-w',
                 f'-I{REPO / "include"}', f'-I{_py_include()}', '-isystem', _pybind_include(),
                 '-DSOURCE_PATH_PREFIX_SIZE=0']
        ldflags: list[str] = []
        if sanitize:
            cxx = 'clang++-14' if shutil.which('clang++-14') else 'clang++'
            flags += ['-g', '-fsanitize=address,undefined', '-fno-omit-frame-pointer',
                      '-fno-sanitize-recover=undefined']
            ldflags += ['-fsanitize=address,undefined', '-shared-libasan']
        cpps = sorted((REPO / 'src').rglob('*.cpp'))

        def compile_one(cpp: Path) -> tuple[Path, subprocess.CompletedProcess]:
            o = obj / (str(cpp.relative_to(REPO / 'src')).replace('/', '_') + '.o')
            p = subprocess.run([cxx, *flags, '-c', str(cpp), '-o', str(o)],
                               capture_output=True, text=True)
            return o, p

        with ThreadPoolExecutor(max_workers=min(16, len(cpps))) as ex:
            results = list(ex.map(compile_one, cpps))
        failed = [(o, p) for o, p in results if p.returncode != 0]
        if failed:
            msg = '\n'.join(p.stderr[-4000:] for _, p in failed)
            shutil.rmtree(tmp, ignore_errors=True)
            raise BuildError(f'compilation of /repo failed:\n{msg}')
        so = pkg / f'_C{_ext_suffix()}'
        p = subprocess.run([cxx, '-shared', '-o', str(so), *[str(o) for o, _ in results], *ldflags],
                           capture_output=True, text=True)
        if p.returncode != 0:
            shutil.rmtree(tmp, ignore_errors=True)
            raise BuildError(f'link of /repo failed:\n{p.stderr[-4000:]}')
        shutil.rmtree(obj)
        (pkg / '.complete').write_text(f'{time.time() - t0:.1f}s\n')
        if target.exists():
            shutil.rmtree(target)
        tmp.rename(target)
        # prune old builds
        builds = sorted((d for d in root.iterdir() if d.is_dir() and not d.name.startswith('.tmp')),
                        key=lambda d: d.stat().st_mtime, reverse=True)
        for d in builds[KEEP_BUILDS:]:
            shutil.rmtree(d, ignore_errors=True)
        if verbose:
            print(f'[build_impl] built {target} in {time.time() - t0:.1f}s', file=sys.stderr)
        return target


class BuildError(RuntimeError):
    pass


if __name__ == '__main__':
    print(build(sanitize='--asan' in sys.argv, verbose=True))
