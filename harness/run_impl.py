"""Execute protocol requests against the real optree (scratch build on sys.path).

Usage as a module: `Impl(universe).step(line) -> reply line`.
Usage as a script : `run_impl.py < requests > replies`   (PYTHONPATH must contain the scratch build)
"""

from __future__ import annotations

import contextlib
import pickle
import sys
import warnings
from collections import OrderedDict, defaultdict, deque

from sexp import A, Atom, parse, render
from universe import (NT_CLASSES, PREDICATES, SS_CLASSES, USER_CLASSES, Universe, UserExc, class_of,
                      make_flatten, make_unflatten)

import optree
from optree import _C
from optree.registry import __GLOBAL_NAMESPACE as GLOBAL_NS  # type: ignore[attr-defined]

ENTRY_CLASS_NAMES = {
    'AutoEntry': 'auto', 'GetItemEntry': 'getitem', 'GetAttrEntry': 'getattr',
    'FlattenedEntry': 'flattened', 'SequenceEntry': 'sequence', 'MappingEntry': 'mapping',
    'NamedTupleEntry': 'namedtuple', 'StructSequenceEntry': 'structseq',
    'DataclassEntry': 'dataclass', 'PyTreeEntry': 'base',
}
ENTRY_CLASSES = {
    'auto': optree.AutoEntry, 'getitem': optree.GetItemEntry, 'getattr': optree.GetAttrEntry,
    'flattened': optree.FlattenedEntry, 'sequence': optree.SequenceEntry,
    'mapping': optree.MappingEntry, 'namedtuple': optree.NamedTupleEntry,
    'structseq': optree.StructSequenceEntry, 'dataclass': optree.DataclassEntry,
}
BUILTIN_KIND = {type(None): 2, tuple: 3, list: 4, dict: 5, OrderedDict: 7, defaultdict: 8, deque: 9}


def is_encoding(nodes) -> bool:
    """independent check that the engine's node array (kind, arity, node_data, node_entries, custom, num_leaves, num_nodes,
    original_keys) is the post-order listing of a tree with consistent counts: leaves are bare records, `None` nodes are
    childless, dict-kind nodes carry one distinct key per child, every internal record's counts are the sums over its
    children, and exactly one root remains"""
    stack = []
    for kind, arity, data, entries, custom, nl, nn, okeys in nodes:
        kind = int(kind)
        if kind == 1:
            if (arity, data, entries, custom, nl, nn, okeys) != (0, None, None, None, 1, 1, None):
                return False
            stack.append((1, 1))
            continue
        if arity < 0 or len(stack) < arity:
            return False
        kids = stack[len(stack) - arity:] if arity else []
        del stack[len(stack) - arity:]
        if nl != sum(k[0] for k in kids) or nn != sum(k[1] for k in kids) + 1:
            return False
        if kind == 2 and arity != 0:
            return False
        if kind in (5, 7, 8):
            keys = data[1] if kind == 8 else data
            if len(keys) != arity or any(keys[i] == keys[j] for i in range(len(keys)) for j in range(i)):
                return False
        stack.append((nl, nn))
    return len(stack) == 1


class BadOp(Exception):
    pass


class _Special(Exception):
    """carries a fully rendered reply"""


def err_name(e: BaseException) -> str:
    if isinstance(e, UserExc):
        return f'User{e.n}'
    name = type(e).__name__
    return name


def ns_arg(ns: str):
    return GLOBAL_NS if ns == '' else ns


class Impl:
    def __init__(self, universe: Universe | None = None):
        self.u = universe or Universe()
        self.registered: list[tuple[str, type]] = []

    # ------------------------------------------------------------------ helpers
    def cfg(self, s):
        if not (isinstance(s, list) and len(s) == 5 and s[0] == 'cfg'):
            raise BadOp('cfg')
        nil = s[1] == '1'
        ns = s[2]
        pred = PREDICATES[int(s[3])]
        ordered = list(s[4])
        return {'none_is_leaf': nil, 'namespace': ns, 'is_leaf': pred}, ordered

    @contextlib.contextmanager
    def ordered(self, namespaces):
        with contextlib.ExitStack() as stack:
            for ns in namespaces:
                stack.enter_context(optree.dict_insertion_ordered(True, namespace=ns_arg(ns)))
            yield

    def enc_typeref(self, t, kind):
        if t is None:
            return A('N')
        if int(kind) == 0:
            return [A('c'), *self.u.enc_type(t)]
        if t in BUILTIN_KIND:
            return [A('b'), BUILTIN_KIND[t]]
        if t in NT_CLASSES:
            return [A('nt'), NT_CLASSES.index(t)]
        if t in SS_CLASSES:
            return [A('ss'), SS_CLASSES.index(t)]
        return [A('X'), repr(t)]

    def enc_acc(self, acc):
        return [[self.u.enc_key(e.entry), self.enc_typeref(e.type, e.kind), int(e.kind),
                 A(ENTRY_CLASS_NAMES.get(type(e).__name__, type(e).__name__))] for e in acc]

    # ------------------------------------------------------------------ spec expressions
    def spec(self, s):
        op = s[0]
        if op == 'structure':
            kw, ordered = self.cfg(s[1])
            t = self.u.obj(s[2])
            with self.ordered(ordered):
                return optree.tree_structure(t, **kw)
        if op == 'child':
            return self.spec(s[1]).child(int(s[2]))
        if op == 'onelevel':
            r = self.spec(s[1]).one_level()
            if r is None:
                raise UserExc(999)      # `None` for a leaf treespec
            return r
        if op == 'compose':
            return self.spec(s[1]).compose(self.spec(s[2]))
        if op == 'bcast':
            return self.spec(s[1]).broadcast_to_common_suffix(self.spec(s[2]))
        if op == 'pickle':
            return pickle.loads(pickle.dumps(self.spec(s[1])))
        if op == 'leafspec':
            return optree.treespec_leaf(none_is_leaf=(s[1] == '1'))
        if op == 'nonespec':
            return optree.treespec_none(none_is_leaf=(s[1] == '1'))
        if op == 'transform':
            sp = self.spec(s[1])
            arg = self.spec(s[4]) if len(s) > 4 else None
            return sp.transform(self.fnode(int(s[2])), self.fleaf(int(s[3]), arg))
        if op == 'fromcoll':
            kw, ordered = self.cfg(s[1])
            coll = self.coll(s[2])
            with self.ordered(ordered):
                return optree.treespec_from_collection(coll, none_is_leaf=kw['none_is_leaf'],
                                                       namespace=kw['namespace'])
        raise BadOp(f'spec expression {op}')

    def fnode(self, i):
        if i == 0:
            return None
        if i == 1:
            return lambda sp: sp
        if i == 2:
            return lambda sp: optree.treespec_tuple(
                [optree.treespec_leaf(none_is_leaf=sp.none_is_leaf)] * sp.num_children,
                none_is_leaf=sp.none_is_leaf)
        if i == 3:
            return lambda sp: 5
        if i == 4:
            return lambda sp: optree.treespec_list(
                [optree.treespec_leaf(none_is_leaf=sp.none_is_leaf)] * (sp.num_children + 1),
                none_is_leaf=sp.none_is_leaf)
        if i == 5:
            def flip(sp):
                nodes, nil, ns = sp.__getstate__()
                out = optree.treespec_leaf()
                out.__setstate__((nodes, not nil, ns))
                return out
            return flip
        raise BadOp('fnode')

    def fleaf(self, i, arg):
        if i == 0:
            return None
        if i == 1:
            return lambda sp: sp
        if i == 2:
            if arg is None:
                raise BadOp('fleaf arg')
            return lambda sp: arg
        if i == 3:
            return lambda sp: optree.treespec_none(none_is_leaf=sp.none_is_leaf)
        if i == 4:
            return lambda sp: 'not a treespec'
        raise BadOp('fleaf')

    # ---- mapped functions (mirror of `fnMenu` in lean/OptreeModel/Model/Eval.lean)
    def user_fn(self, fid, variant, log):
        from universe import USER_CLASSES
        u = self.u

        def fresh(i):
            return u.leaf(0, 500000 + i)

        def first_obj(args):
            return args[1] if variant in ('path', 'acc') else args[0]

        def enc_args(args):
            out = []
            for j, a in enumerate(args):
                if j == 0 and variant == 'path':
                    out.append([A('p'), *u.enc_keys(a)])
                elif j == 0 and variant == 'acc':
                    out.append([A('a'), *self.enc_acc(a)])
                else:
                    out.append(u.enc_obj(a))
            return out

        def f(*args):
            i = len(log)
            log.append(enc_args(args))
            if fid == 0:
                return first_obj(args)
            if fid == 1:
                return fresh(i)
            if fid == 2:
                return (first_obj(args), fresh(i))
            if fid == 3:
                if i == 2:
                    raise UserExc(2)
                return fresh(i)
            if fid == 4:
                return None
            if fid == 5:
                return (fresh(i), fresh(1000 + i)) if i % 2 == 0 else [fresh(i)]
            if fid == 6:
                return {'b': fresh(i), 'a': [fresh(1000 + i), None]}
            if fid == 7:        # class 2: registered in namespace 'a' only
                return USER_CLASSES[2](None, [fresh(i), fresh(1000 + i)])
            if fid == 8:        # class 4: registered in namespace 'b' only
                return USER_CLASSES[4](None, [fresh(i), fresh(1000 + i)])
            if fid == 9:        # class 0: registered globally
                return USER_CLASSES[0](1, [(fresh(i),), first_obj(args)])
            raise BadOp('fn')

        return f

    def map_like(self, call, log):
        try:
            r = call()
        except BadOp:
            raise
        except Exception as e:  # noqa: BLE001
            return ('err', err_name(e), log)
        return ('ok', r, log)

    def coll(self, s):
        from universe import FACTORIES, NT_CLASSES as NT, SS_CLASSES as SS, Lf
        u = self.u
        if isinstance(s, Atom):
            if s == 'cN':
                return None
            raise BadOp('coll')
        tag = s[0]
        if tag == 'cX':
            return Lf(-1)
        if tag == 'cBAD':
            return (optree.treespec_leaf(), 5)
        if tag == 'cT':
            return tuple([self.spec(x) for x in s[1:]])
        if tag == 'cl':
            return [self.spec(x) for x in s[1:]]
        if tag == 'cD':
            return {u.key(k): self.spec(v) for k, v in s[1:]}
        if tag == 'cO':
            return OrderedDict([(u.key(k), self.spec(v)) for k, v in s[1:]])
        if tag == 'cDD':
            f = u.optnat(s[1])
            return defaultdict(None if f is None else FACTORIES[f],
                               [(u.key(k), self.spec(v)) for k, v in s[2:]])
        if tag == 'cQ':
            return deque([self.spec(x) for x in s[2:]], maxlen=u.optnat(s[1]))
        if tag == 'cNT':
            return NT[int(s[1])](*[self.spec(x) for x in s[2:]])
        if tag == 'cSS':
            return SS[int(s[1])](tuple([self.spec(x) for x in s[2:]]))
        if tag == 'cU':
            return USER_CLASSES[int(s[1])](u.optkey(s[2]), [self.spec(x) for x in s[4:]], str(s[3]))
        raise BadOp('coll')

    # ------------------------------------------------------------------ requests
    def eval(self, s):
        u = self.u
        op = s[0]
        if op == 'flatten':
            kw, ordered = self.cfg(s[1])
            t = u.obj(s[2])
            with self.ordered(ordered):
                leaves, spec = optree.tree_flatten(t, **kw)
            return [[A('leaves'), *map(u.enc_obj, leaves)], u.enc_spec(spec)]
        if op == 'faultflatten':
            import universe
            k = None if s[1] == 'N' else int(s[1])
            kw, ordered = self.cfg(s[2])
            t = u.obj(s[3])
            counter = [0]

            def hook(kind, obj):
                if kind.startswith('key-'):
                    return          # the Lean callback program counts is_leaf and flatten functions only
                i = counter[0]
                counter[0] += 1
                if k is not None and i == k:
                    raise UserExc(99)
            pred = kw['is_leaf']
            if pred is not None:
                def wrapped(x):
                    hook('pred', x)
                    return pred(x)
                kw['is_leaf'] = wrapped
            universe.CALLBACK_HOOK = hook
            try:
                with self.ordered(ordered):
                    try:
                        leaves, spec = optree.tree_flatten(t, **kw)
                    except RecursionError as e:
                        return [[A('calls'), counter[0]], [A('err'), A(err_name(e))]]
                    except Exception as e:  # noqa: BLE001
                        return [[A('calls'), counter[0]], [A('err'), A(err_name(e))]]
            finally:
                universe.CALLBACK_HOOK = None
            return [[A('calls'), counter[0]], [A('leaves'), *map(u.enc_obj, leaves)], u.enc_spec(spec)]
        if op == 'flatten_with_path':
            kw, ordered = self.cfg(s[1])
            t = u.obj(s[2])
            with self.ordered(ordered):
                paths, leaves, spec = optree.tree_flatten_with_path(t, **kw)
            return [[A('paths'), *(u.enc_keys(p) for p in paths)],
                    [A('leaves'), *map(u.enc_obj, leaves)], u.enc_spec(spec)]
        if op == 'iter':
            kw, ordered = self.cfg(s[1])
            t = u.obj(s[2])
            with self.ordered(ordered):
                leaves = list(optree.tree_iter(t, **kw))
            return [[A('leaves'), *map(u.enc_obj, leaves)]]
        if op == 'roundtrip':
            kw, ordered = self.cfg(s[1])
            t = u.obj(s[2])
            with self.ordered(ordered):
                leaves, spec = optree.tree_flatten(t, **kw)
                out = optree.tree_unflatten(spec, leaves)
            return [u.enc_obj(out)]
        if op == 'unflatten':
            spec = self.spec(s[1])
            leaves = [u.obj(x) for x in s[2]]
            return [u.enc_obj(spec.unflatten(leaves))]
        if op == 'spec':
            return [u.enc_spec(self.spec(s[1]))]
        if op == 'paths':
            return [[A('paths'), *(u.enc_keys(p) for p in self.spec(s[1]).paths())]]
        if op == 'accessors':
            return [[self.enc_acc(a) for a in self.spec(s[1]).accessors()]]
        if op == 'entries':
            return [u.enc_keys(self.spec(s[1]).entries())]
        if op == 'entry':
            return [u.enc_key(self.spec(s[1]).entry(int(s[2])))]
        if op == 'children':
            return [u.enc_spec(c) for c in self.spec(s[1]).children()]
        if op == 'is_enc':
            return [is_encoding(self.spec(s[1]).__getstate__()[0])]
        if op == 'counts':
            sp = self.spec(s[1])
            return [sp.num_leaves, sp.num_nodes, sp.num_children, int(sp.kind),
                    self.enc_typeref(sp.type, sp.kind), bool(sp.is_leaf()), bool(sp.is_leaf(strict=False)),
                    bool(sp.is_one_level())]
        if op == 'is_leaf':
            kw, ordered = self.cfg(s[1])
            with self.ordered(ordered):
                return [bool(optree.tree_is_leaf(u.obj(s[2]), **kw))]
        if op == 'all_leaves':
            kw, ordered = self.cfg(s[1])
            with self.ordered(ordered):
                return [bool(optree.all_leaves([u.obj(x) for x in s[2]], **kw))]
        if op in ('map', 'bmap', 'transpose_map'):
            raise _Special(self.eval_map(s))
        if op == 'transpose':
            kw, ordered = self.cfg(s[1])
            outer, inner = self.spec(s[2]), self.spec(s[3])
            t = u.obj(s[4])
            with self.ordered(ordered):
                return [u.enc_obj(optree.tree_transpose(outer, inner, t, is_leaf=kw['is_leaf']))]
        if op == 'bprefix':
            kw, ordered = self.cfg(s[1])
            a, b = u.obj(s[2]), u.obj(s[3])
            with self.ordered(ordered):
                r = optree.tree_broadcast_prefix(a, b, **kw)
                ls = optree.broadcast_prefix(a, b, **kw)
            return [u.enc_obj(r), [A('leaves'), *map(u.enc_obj, ls)]]
        if op == 'bcommon':
            kw, ordered = self.cfg(s[1])
            a, b = u.obj(s[2]), u.obj(s[3])
            with self.ordered(ordered):
                ta, tb = optree.tree_broadcast_common(a, b, **kw)
            return [self.enc_sentinel(ta), self.enc_sentinel(tb)]
        if op == 'replace_nones':
            kw, ordered = self.cfg(s[1])
            with self.ordered(ordered):
                return [u.enc_obj(optree.tree_replace_nones(u.leaf(0, 777777), u.obj(s[2]), namespace=kw['namespace']))]
        if op == 'ordersm':
            return self.ordersm(s[1:])
        if op == 'ravel':
            import ravel_impl
            return ravel_impl.run(s)
        if op == 'c17pair':
            import sched_impl
            a, b = str(s[1]), str(s[2])
            k = sched_impl.count_callbacks(a)
            outcome = 'completes'
            for park in sorted({0, k // 2, max(k - 1, 0)}):
                st, _ = sched_impl.run_pair(a, b, park)
                if st != 'completes':
                    outcome = 'deadlock' if st == 'deadlock' else 'crash'
                    break
            return [A(outcome)]
        if op in ('c16loop', 'c16walk'):
            import mem_impl
            # in a forked child: an invalid memory access kills the child, not the runner
            status, text = mem_impl.in_child(lambda: (mem_impl.loop if op == 'c16loop' else mem_impl.walk)(s))
            if status != 'ok':
                return [A('fault')]
            r = eval(text.split(' ', 1)[1])      # noqa: S307  (repr written by our own child)
            return [A(r)] if isinstance(r, str) else [[A(r[0]), A(r[1])]]
        if op == 'aliashist':
            import alias_impl
            return [A(alias_impl.history(s))]
        if op == 'dcpart':
            import dc_impl
            return dc_impl.partition(s)[0]
        if op == 'sorttwin':
            import twins_impl
            return twins_impl.sort_twin(u, [u.key(k) for k in s[1:]])
        if op == 'classify':
            import twins_impl
            return twins_impl.classify(s[1])
        if op == 'pyonelevel':
            import twins_impl
            return twins_impl.py_one_level(self, s[1] == '1', u.obj(s[2]))
        if op == 'regsm':
            import regsm_impl
            return regsm_impl.run(s[1] == '1', s[2:])
        if op == 'repr':
            return [repr(self.spec(s[1]))]
        if op == 'eq':
            a, b = self.spec(s[1]), self.spec(s[2])
            return [bool(a == b), bool(b == a)]
        if op == 'hash_eq':
            a, b = self.spec(s[1]), self.spec(s[2])
            return [hash(a) == hash(b)]
        if op == 'is_prefix':
            a, b = self.spec(s[1]), self.spec(s[2])
            return [bool(a.is_prefix(b, strict=(s[3] == '1')))]
        if op == 'prefix_errors':
            kw, ordered = self.cfg(s[1])
            with self.ordered(ordered):
                errs = optree.prefix_errors(u.obj(s[2]), u.obj(s[3]), **kw)
            out = []
            for mk in errs:
                msg = str(mk('x'))
                kind = ('types' if 'different types' in msg else 'keys' if 'different pytree keys' in msg
                        else 'arity' if 'different numbers of pytree children' in msg
                        else 'metadata' if 'different pytree metadata' in msg else 'unknown')
                acc = mk.__closure__[mk.__code__.co_freevars.index('accessor')].cell_contents
                out.append([A(kind), [u.enc_key(e) for e in acc.path]])
            return out
        if op == 'flatten_up_to':
            sp = self.spec(s[1])
            return [u.enc_obj(x) for x in sp.flatten_up_to(u.obj(s[2]))]
        if op == 'sort':
            keys = [u.key(k) for k in s[1:]]
            return self.sort_observation(keys)
        raise BadOp(f'request {op}')

    def ordersm(self, events, observe=None):
        """run enter / exit / raise events through real `dict_insertion_ordered` context managers"""
        stack = []
        out = []

        def obs():
            return [[bool(_C.is_dict_insertion_ordered(n, False)), bool(_C.is_dict_insertion_ordered(n, True))]
                    for n in ('', 'a', 'b')]
        try:
            for e in events:
                if e[0] == 'enter':
                    cm = optree.dict_insertion_ordered(e[1] == '1', namespace=ns_arg(e[2]))
                    cm.__enter__()
                    stack.append(cm)
                elif e[0] == 'exit':
                    if stack:
                        stack.pop().__exit__(None, None, None)
                elif e[0] == 'raise':
                    exc = UserExc(13)
                    while stack:
                        swallowed = stack.pop().__exit__(UserExc, exc, None)
                        if swallowed:
                            raise AssertionError('context manager swallowed the exception')
                else:
                    raise BadOp('event')
                out.append(obs())
                if observe is not None:
                    observe(len(out) - 1)
        finally:
            while stack:
                stack.pop().__exit__(None, None, None)
        return out

    def enc_sentinel(self, t):
        return self.u.enc_obj(t)

    def eval_map(self, s):
        u = self.u
        op = s[0]
        log = []
        if op == 'map':
            variant, inplace = str(s[1]), s[2] == '1'
            kw, ordered = self.cfg(s[3])
            f = self.user_fn(int(s[4]), variant, log)
            t = u.obj(s[5])
            rests = [u.obj(x) for x in s[6:]]
            name = {'plain': 'tree_map', 'path': 'tree_map_with_path', 'acc': 'tree_map_with_accessor'}[variant]
            fn = getattr(optree, name + ('_' if inplace else ''))
            with self.ordered(ordered):
                res = self.map_like(lambda: fn(f, t, *rests, **kw), log)
            if res[0] == 'ok' and inplace and res[1] is not t:
                return render([A('ok'), [A('X'), 'underscore variant did not return the original tree object'], [A('calls'), *log]])
        elif op == 'bmap':
            variant = str(s[1])
            kw, ordered = self.cfg(s[2])
            f = self.user_fn(int(s[3]), variant, log)
            t = u.obj(s[4])
            rests = [u.obj(x) for x in s[5:]]
            name = {'plain': 'tree_broadcast_map', 'path': 'tree_broadcast_map_with_path',
                    'acc': 'tree_broadcast_map_with_accessor'}[variant]
            fn = getattr(optree, name)
            with self.ordered(ordered):
                res = self.map_like(lambda: fn(f, t, *rests, **kw), log)
        else:
            variant = str(s[1])
            kw, ordered = self.cfg(s[2])
            f = self.user_fn(int(s[3]), variant, log)
            inner = None if (isinstance(s[4], Atom) and s[4] == '-') else self.spec(s[4])
            t = u.obj(s[5])
            rests = [u.obj(x) for x in s[6:]]
            name = {'plain': 'tree_transpose_map', 'path': 'tree_transpose_map_with_path',
                    'acc': 'tree_transpose_map_with_accessor'}[variant]
            fn = getattr(optree, name)
            with self.ordered(ordered):
                res = self.map_like(lambda: fn(f, t, *rests, inner_treespec=inner, **kw), log)
        if res[0] == 'ok':
            return render([A('ok'), u.enc_obj(res[1]), [A('calls'), *log]])
        return render([A('err'), A(res[1]), [A('calls'), *log]])

    def sort_observation(self, keys):
        """what the engine's TotalOrderSort does to a key list, observed through a dict flatten"""
        d = {k: i for i, k in enumerate(keys)}
        spec = optree.tree_structure(d)
        got = spec.entries()
        # which stage?  reproduce from Python semantics
        stage = 1
        try:
            sorted(keys)
        except TypeError:
            stage = 2
            try:
                sorted(keys, key=lambda o: (f'{o.__class__.__module__}.{o.__class__.__qualname__}', o))
            except TypeError:
                stage = 3
        return [stage, self.u.enc_keys(got)]

    # ------------------------------------------------------------------ line level
    def step(self, line: str) -> str:
        try:
            s = parse(line)
        except ValueError:
            return 'bad-op'
        try:
            if isinstance(s, list) and s and s[0] == 'reg':
                _, ns, ck, idx, ek, mode = s
                cls = class_of(int(ck), int(idx))
                with warnings.catch_warnings():
                    warnings.simplefilter('ignore')
                    optree.register_pytree_node(
                        cls, make_flatten(int(ck), str(mode)), make_unflatten(int(ck), cls),
                        path_entry_type=ENTRY_CLASSES[str(ek)], namespace=ns_arg(ns))
                self.registered.append((ns, cls))
                return '(ok)'
            if isinstance(s, list) and s and s[0] == 'unreg':
                _, ns, ck, idx = s
                cls = class_of(int(ck), int(idx))
                optree.unregister_pytree_node(cls, namespace=ns_arg(ns))
                self.registered.remove((ns, cls))
                return '(ok)'
            if not isinstance(s, list) or not s:
                return 'bad-op'
            if s[0] == 'pickle_save':
                self.saved = pickle.dumps(self.spec(s[1]))
                return '(ok)'
            if s[0] == 'pickle_load':
                if getattr(self, 'saved', None) is None:
                    return 'bad-op'
                return render([A('ok'), self.u.enc_spec(pickle.loads(self.saved))])
            with warnings.catch_warnings():
                warnings.simplefilter('ignore')
                out = self.eval(s)
            return render([A('ok'), *out])
        except _Special as sp:
            return sp.args[0]
        except BadOp:
            return 'bad-op'
        except RecursionError as e:
            return render([A('err'), A(err_name(e))])
        except Exception as e:  # noqa: BLE001
            return render([A('err'), A(err_name(e))])

    def cleanup(self):
        for ns, cls in list(self.registered):
            try:
                optree.unregister_pytree_node(cls, namespace=ns_arg(ns))
            except Exception:  # noqa: BLE001
                pass
        self.registered.clear()


def main():
    impl = Impl()
    out = sys.stdout
    for line in sys.stdin:
        line = line.strip()
        if not line:
            continue
        out.write(impl.step(line) + '\n')
    out.flush()


if __name__ == '__main__':
    main()
