"""Execute protocol requests against the real optree (scratch build on sys.path).

Usage as a module: `Impl(universe).step(line) -> reply line`.
Usage as a script : `run_impl.py < requests > replies`   (PYTHONPATH must contain the scratch build)
"""

from __future__ import annotations

import contextlib
import pickle
import sys
import warnings
from collections import OrderedDict, defaultdict, deque

from sexp import A, Atom, parse, render
from universe import (NT_CLASSES, PREDICATES, SS_CLASSES, USER_CLASSES, Universe, UserExc, class_of,
                      make_flatten, make_unflatten)

import optree
from optree import _C
from optree.registry import __GLOBAL_NAMESPACE as GLOBAL_NS  # type: ignore[attr-defined]

ENTRY_CLASS_NAMES = {
    'AutoEntry': 'auto', 'GetItemEntry': 'getitem', 'GetAttrEntry': 'getattr',
    'FlattenedEntry': 'flattened', 'SequenceEntry': 'sequence', 'MappingEntry': 'mapping',
    'NamedTupleEntry': 'namedtuple', 'StructSequenceEntry': 'structseq',
    'DataclassEntry': 'dataclass', 'PyTreeEntry': 'base',
}
ENTRY_CLASSES = {
    'auto': optree.AutoEntry, 'getitem': optree.GetItemEntry, 'getattr': optree.GetAttrEntry,
    'flattened': optree.FlattenedEntry, 'sequence': optree.SequenceEntry,
    'mapping': optree.MappingEntry, 'namedtuple': optree.NamedTupleEntry,
    'structseq': optree.StructSequenceEntry, 'dataclass': optree.DataclassEntry,
}
BUILTIN_KIND = {type(None): 2, tuple: 3, list: 4, dict: 5, OrderedDict: 7, defaultdict: 8, deque: 9}


class BadOp(Exception):
    pass


def err_name(e: BaseException) -> str:
    if isinstance(e, UserExc):
        return f'User{e.n}'
    name = type(e).__name__
    return name


def ns_arg(ns: str):
    return GLOBAL_NS if ns == '' else ns


class Impl:
    def __init__(self, universe: Universe | None = None):
        self.u = universe or Universe()
        self.registered: list[tuple[str, type]] = []

    # ------------------------------------------------------------------ helpers
    def cfg(self, s):
        if not (isinstance(s, list) and len(s) == 5 and s[0] == 'cfg'):
            raise BadOp('cfg')
        nil = s[1] == '1'
        ns = s[2]
        pred = PREDICATES[int(s[3])]
        ordered = list(s[4])
        return {'none_is_leaf': nil, 'namespace': ns, 'is_leaf': pred}, ordered

    @contextlib.contextmanager
    def ordered(self, namespaces):
        with contextlib.ExitStack() as stack:
            for ns in namespaces:
                stack.enter_context(optree.dict_insertion_ordered(True, namespace=ns_arg(ns)))
            yield

    def enc_typeref(self, t, kind):
        if t is None:
            return A('N')
        if int(kind) == 0:
            return [A('c'), *self.u.enc_type(t)]
        if t in BUILTIN_KIND:
            return [A('b'), BUILTIN_KIND[t]]
        if t in NT_CLASSES:
            return [A('nt'), NT_CLASSES.index(t)]
        if t in SS_CLASSES:
            return [A('ss'), SS_CLASSES.index(t)]
        return [A('X'), repr(t)]

    def enc_acc(self, acc):
        return [[self.u.enc_key(e.entry), self.enc_typeref(e.type, e.kind), int(e.kind),
                 A(ENTRY_CLASS_NAMES.get(type(e).__name__, type(e).__name__))] for e in acc]

    # ------------------------------------------------------------------ spec expressions
    def spec(self, s):
        op = s[0]
        if op == 'structure':
            kw, ordered = self.cfg(s[1])
            t = self.u.obj(s[2])
            with self.ordered(ordered):
                return optree.tree_structure(t, **kw)
        if op == 'child':
            return self.spec(s[1]).child(int(s[2]))
        if op == 'onelevel':
            return self.spec(s[1]).one_level()
        raise BadOp(f'spec expression {op}')

    # ------------------------------------------------------------------ requests
    def eval(self, s):
        u = self.u
        op = s[0]
        if op == 'flatten':
            kw, ordered = self.cfg(s[1])
            t = u.obj(s[2])
            with self.ordered(ordered):
                leaves, spec = optree.tree_flatten(t, **kw)
            return [[A('leaves'), *map(u.enc_obj, leaves)], u.enc_spec(spec)]
        if op == 'flatten_with_path':
            kw, ordered = self.cfg(s[1])
            t = u.obj(s[2])
            with self.ordered(ordered):
                paths, leaves, spec = optree.tree_flatten_with_path(t, **kw)
            return [[A('paths'), *(u.enc_keys(p) for p in paths)],
                    [A('leaves'), *map(u.enc_obj, leaves)], u.enc_spec(spec)]
        if op == 'iter':
            kw, ordered = self.cfg(s[1])
            t = u.obj(s[2])
            with self.ordered(ordered):
                leaves = list(optree.tree_iter(t, **kw))
            return [[A('leaves'), *map(u.enc_obj, leaves)]]
        if op == 'roundtrip':
            kw, ordered = self.cfg(s[1])
            t = u.obj(s[2])
            with self.ordered(ordered):
                leaves, spec = optree.tree_flatten(t, **kw)
                out = optree.tree_unflatten(spec, leaves)
            return [u.enc_obj(out)]
        if op == 'unflatten':
            spec = self.spec(s[1])
            leaves = [u.obj(x) for x in s[2]]
            return [u.enc_obj(spec.unflatten(leaves))]
        if op == 'spec':
            return [u.enc_spec(self.spec(s[1]))]
        if op == 'paths':
            return [[A('paths'), *(u.enc_keys(p) for p in self.spec(s[1]).paths())]]
        if op == 'accessors':
            return [[self.enc_acc(a) for a in self.spec(s[1]).accessors()]]
        if op == 'entries':
            return [u.enc_keys(self.spec(s[1]).entries())]
        if op == 'entry':
            return [u.enc_key(self.spec(s[1]).entry(int(s[2])))]
        if op == 'children':
            return [u.enc_spec(c) for c in self.spec(s[1]).children()]
        if op == 'counts':
            sp = self.spec(s[1])
            return [sp.num_leaves, sp.num_nodes, sp.num_children, int(sp.kind),
                    self.enc_typeref(sp.type, sp.kind), bool(sp.is_leaf()), bool(sp.is_leaf(strict=False)),
                    bool(sp.is_one_level())]
        if op == 'is_leaf':
            kw, ordered = self.cfg(s[1])
            with self.ordered(ordered):
                return [bool(optree.tree_is_leaf(u.obj(s[2]), **kw))]
        if op == 'all_leaves':
            kw, ordered = self.cfg(s[1])
            with self.ordered(ordered):
                return [bool(optree.all_leaves([u.obj(x) for x in s[2]], **kw))]
        if op == 'sort':
            keys = [u.key(k) for k in s[1:]]
            return self.sort_observation(keys)
        raise BadOp(f'request {op}')

    def sort_observation(self, keys):
        """what the engine's TotalOrderSort does to a key list, observed through a dict flatten"""
        d = {k: i for i, k in enumerate(keys)}
        spec = optree.tree_structure(d)
        got = spec.entries()
        # which stage?  reproduce from Python semantics
        stage = 1
        try:
            sorted(keys)
        except TypeError:
            stage = 2
            try:
                sorted(keys, key=lambda o: (f'{o.__class__.__module__}.{o.__class__.__qualname__}', o))
            except TypeError:
                stage = 3
        return [stage, self.u.enc_keys(got)]

    # ------------------------------------------------------------------ line level
    def step(self, line: str) -> str:
        try:
            s = parse(line)
        except ValueError:
            return 'bad-op'
        try:
            if isinstance(s, list) and s and s[0] == 'reg':
                _, ns, ck, idx, ek, mode = s
                cls = class_of(int(ck), int(idx))
                with warnings.catch_warnings():
                    warnings.simplefilter('ignore')
                    optree.register_pytree_node(
                        cls, make_flatten(int(ck), str(mode)), make_unflatten(int(ck), cls),
                        path_entry_type=ENTRY_CLASSES[str(ek)], namespace=ns_arg(ns))
                self.registered.append((ns, cls))
                return '(ok)'
            if isinstance(s, list) and s and s[0] == 'unreg':
                _, ns, ck, idx = s
                cls = class_of(int(ck), int(idx))
                optree.unregister_pytree_node(cls, namespace=ns_arg(ns))
                self.registered.remove((ns, cls))
                return '(ok)'
            if not isinstance(s, list) or not s:
                return 'bad-op'
            with warnings.catch_warnings():
                warnings.simplefilter('ignore')
                out = self.eval(s)
            return render([A('ok'), *out])
        except BadOp:
            return 'bad-op'
        except RecursionError as e:
            return render([A('err'), A(err_name(e))])
        except Exception as e:  # noqa: BLE001
            return render([A('err'), A(err_name(e))])

    def cleanup(self):
        for ns, cls in list(self.registered):
            try:
                optree.unregister_pytree_node(cls, namespace=ns_arg(ns))
            except Exception:  # noqa: BLE001
                pass
        self.registered.clear()


def main():
    impl = Impl()
    out = sys.stdout
    for line in sys.stdin:
        line = line.strip()
        if not line:
            continue
        out.write(impl.step(line) + '\n')
    out.flush()


if __name__ == '__main__':
    main()
