#!/bin/bash
# Run /repo's own test-suite against a fresh build of /repo's working tree (scratch copy, removed afterwards).
# usage: harness/run_repo_tests.sh [pytest args...]   (default: whole suite, 16 workers)
set -e
cd "$(dirname "$0")/.."
B=$(python3 harness/build_impl.py)
T=/var/tmp/optree-verif/testrun-$$
rm -rf "$T"; mkdir -p "$T"
cp -r "$B/optree" "$T/optree"
cp -r /repo/tests "$T/tests"
cp /repo/pyproject.toml "$T/" 2>/dev/null || true
cd "$T"
set +e
if [ $# -eq 0 ]; then
  /venv/bin/python -m pytest -q -p no:cacheprovider --timeout=900 tests 2>&1 | tail -15
else
  /venv/bin/python -m pytest -q -p no:cacheprovider --timeout=900 "$@" 2>&1 | tail -15
fi
rc=${PIPESTATUS[0]}
cd /; rm -rf "$T"
exit $rc
