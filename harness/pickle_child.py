"""Fresh interpreter for C11: make the requested registrations, load a pickled treespec, report."""
import json
import pickle
import sys
import os

sys.setrecursionlimit(100000)
sys.path.insert(0, os.path.dirname(os.path.abspath(__file__)))

from run_impl import Impl  # noqa: E402
from sexp import parse, render  # noqa: E402
import optree  # noqa: E402


def main():
    req = json.load(sys.stdin)
    impl = Impl()
    out = {'setup': [impl.step(line) for line in req['setup']]}
    try:
        spec = pickle.loads(bytes.fromhex(req['pickle']))
    except Exception as e:  # noqa: BLE001
        out['load'] = ['err', type(e).__name__, str(e)[:200]]
        print(json.dumps(out))
        return
    u = impl.u
    out['load'] = ['ok']
    out['spec'] = render(u.enc_spec(spec))
    out['repr'] = repr(spec)
    out['hash_stable'] = hash(spec) == hash(pickle.loads(bytes.fromhex(req['pickle'])))
    out['paths'] = render([u.enc_keys(p) for p in spec.paths()])
    try:
        out['accessors'] = render([impl.enc_acc(a) for a in spec.accessors()])
    except Exception as e:  # noqa: BLE001
        out['accessors'] = f'err {type(e).__name__}'
    out['entries'] = render(u.enc_keys(spec.entries()))
    out['children'] = [render(u.enc_spec(c)) for c in spec.children()]
    if req.get('tree'):
        tree = u.obj(parse(req['tree']))
        kw, ordered = impl.cfg(parse(req['cfg']))
        with impl.ordered(ordered):
            leaves, fresh = optree.tree_flatten(tree, **kw)
        out['eq_fresh'] = bool(fresh == spec) and bool(spec == fresh)
        out['hash_fresh'] = hash(fresh) == hash(spec)
        out['fresh_spec'] = render(u.enc_spec(fresh))
        try:
            out['unflatten'] = render(u.enc_obj(spec.unflatten(leaves)))
        except Exception as e:  # noqa: BLE001
            out['unflatten'] = f'err {type(e).__name__}'
    print(json.dumps(out))


if __name__ == '__main__':
    main()
