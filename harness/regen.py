"""Regenerate every lean/OptreeModel/Generated/*.lean from /repo's current working tree (all translators).
Run before committing: a Generated file left over from a run against a modified /repo would break `lake build`."""
import importlib
import sys
from pathlib import Path

HERE = Path(__file__).resolve().parent
sys.path.insert(0, str(HERE))
import build_impl  # noqa: E402

for name in ['hash_fields', 'node_fields', 'twins', 'fresh', 'swallow', 'access', 'locks']:
    ex = importlib.import_module(f'extract.{name}')
    ex.run(build_impl.REPO, HERE.parent / 'lean' / 'OptreeModel' / 'Generated')
    print('regenerated', name)
