"""Regenerate /verif/MANIFEST.json from the table below (kept valid at all times)."""
import json
from pathlib import Path

VERIF = Path(__file__).resolve().parent.parent
BASELINE = json.loads(Path('/root/.vp/BASELINE.json').read_text())['cmd'] if Path('/root/.vp/BASELINE.json').exists() else \
    'cd /repo && /venv/bin/python -m pytest -ra -q -p no:cacheprovider --timeout=900 --continue-on-collection-errors'

NOTE_COMMON = ('Trusted: Lean 4.33 kernel; axioms propext / Classical.choice / Quot.sound only (audited per theorem on every '
               'run); the hand-written Lean model is tied to /repo by the correspondence stream (differential testing over '
               'generated inputs, bounded by the generators) and by regex translators; CPython dict order and list.sort '
               'failure characterisation (DESIGN.md 3.2, 8).')

CLAIMED = {
    'C01': dict(
        text=('Proof (Lean 4): C01_roundtrip / C01_reflatten / C01_machine / C01_flatten_sane state, for every PyObj tree, every '
              'Cfg (none_is_leaf, namespace, registry, ordered set, any predicate, any depth limit), that unflatten(flatten(t)) '
              'rebuilds exactly t and re-flattening gives the identical leaves and treespec; proved by mutual structural '
              'induction with no size bound.  The model is tied to /repo by a correspondence stream (flatten, roundtrip on '
              'generated trees, compared down to the node array) and the property is also evaluated directly on the '
              'implementation (exact structure, leaf identity, replacement leaves, wrong leaf counts).  Replacement-leaves and '
              'leaf-count clauses are currently covered by the implementation oracle only (theorems pending).'),
        technique='Lean 4 proof by mutual structural induction + model/implementation correspondence',
        ref='6 C01'),
}

REASON_PENDING = 'check not built yet in this revision (work in progress; see DESIGN.md section 6 for the plan)'

ALL = [f'C{i:02d}' for i in range(1, 21)]


def main():
    checks = []
    for pid in ALL:
        if pid not in CLAIMED:
            continue
        c = CLAIMED[pid]
        checks.append({
            'property_id': pid,
            'quick_cmd': f'./check {pid} --tier quick',
            'thorough_cmd': f'./check {pid} --tier thorough',
            'evidence_file': f'evidence/{pid}.json',
            'replay_cmd_template': f'./check {pid} --replay {{path}}',
            'engine': 'lean-proof+correspondence',
            'level_claimed': {'category': 'proof', 'text': c['text'], 'design_ref': c['ref']},
            'level_note': c.get('note', NOTE_COMMON),
            'technique': c['technique'],
        })
    manifest = {
        'version': 1,
        'setup_cmd': './setup.sh',
        'hooks': {
            'guard': 'OPTREE_VERIF',
            'enable': 'no hooks are needed: checks build /repo\'s working tree as it is (harness/build_impl.py)',
            'baseline_off_cmd': BASELINE.replace(' --junitxml=<file>', ''),
            'source_commits': [],
            'add_only': True,
        },
        'engines': [{
            'name': 'lean-proof+correspondence',
            'path': 'harness/engine.py',
            'serves_properties': sorted(CLAIMED),
            'kind_free_text': 'Lean 4 theorems about an executable model (lean/), tied to /repo by a line-protocol '
                              'correspondence check and by translators; per-property oracle on the implementation',
        }],
        'checks': checks,
        'not_applicable': [{'property_id': p, 'reason': REASON_PENDING} for p in ALL if p not in CLAIMED],
        'notes': 'See DESIGN.md.  known_findings.txt lists genuine defects found (fixed: / finding: lines).',
    }
    (VERIF / 'MANIFEST.json').write_text(json.dumps(manifest, indent=1) + '\n')


if __name__ == '__main__':
    main()
