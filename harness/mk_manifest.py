"""Regenerate /verif/MANIFEST.json from the table below (kept valid at all times)."""
import json
from pathlib import Path

VERIF = Path(__file__).resolve().parent.parent
BASELINE = json.loads(Path('/root/.vp/BASELINE.json').read_text())['cmd'] if Path('/root/.vp/BASELINE.json').exists() else \
    'cd /repo && /venv/bin/python -m pytest -ra -q -p no:cacheprovider --timeout=900 --continue-on-collection-errors'

NOTE_COMMON = ('Trusted: Lean 4.33 kernel; axioms propext / Classical.choice / Quot.sound only (audited per theorem on every '
               'run); the hand-written Lean model is tied to /repo by the correspondence stream (differential testing over '
               'generated inputs, bounded by the generators) and by regex translators; CPython dict order and list.sort '
               'failure characterisation (DESIGN.md 3.2, 8).')

PARTIAL = (' The statements are about the executable Lean model; the model is tied to /repo on every run by the correspondence '
           'stream (same requests through the real engine and the Lean driver, compared on canonical outputs) and the '
           'property is also evaluated directly on the implementation by an oracle that yields replayable failing inputs.')

CLAIMED = {
    'C01': dict(text='Proved for every tree / Cfg: C01_roundtrip, C01_reflatten, C01_machine, C01_flatten_sane (unflatten inverts flatten exactly; '
                     'mutual structural induction, no size bound), C01_leaf_count (any list of exactly num_leaves replacement leaves is accepted, '
                     'every other length is a ValueError), C01_replace_leaves (unflattening with any n leaf-typed replacement objects builds a tree that '
                     'flattens back to exactly those n objects and the identical treespec; mutual structural induction in Lemmas/Replace.lean, dict '
                     'nodes rebuilt in insertion order and re-visited in the same sorted order; hypothesis PredOnLeaves = the is_leaf predicate '
                     'does not fire on the rebuilt containers, shown necessary by C01_replace_needs_stable_predicate), C01_replace_leaves_nopred, '
                     'C01_leafObj_leaf.' + PARTIAL,
                technique='Lean 4 proof (mutual structural induction) + correspondence', ref='6 C01'),
    'C02': dict(text='Proved: C02_leaf_order (flatten leaves = documented order leavesOf, all trees/configs), C02_none_filter, C02_pred_refines, '
                     'C02_sort_perm / C02_sort_fallback, classification lemmas C02_kind_*, C02_pred_first, C02_sort_canonical (keys on which < is a '
                     'strict total order sort to the same list from every insertion order) with C02_int_keys_canonical; C02_dict_insertion_order_irrelevant (a dict node with '
                     'pairwise distinct, strictly totally ordered keys: every insertion order gives identical leaves and a treespec node with the same sorted keys '
                     'and the same children, differing only in the remembered insertion order that == ignores and unflatten restores); for key sets outside '
                     'that hypothesis (stage-2 / fallback orders, keys tied under <) insertion-order irrelevance is covered by oracle + correspondence only; key types '
                     'outside the model universe (bool / float / subclasses / partial orders): reference rule in the exotic oracle stream.' + PARTIAL,
                technique='Lean 4 proof (refinement to a reference leaf order) + correspondence', ref='6 C02'),
    'C03': dict(text='Proved: C03_flatten_with_path_agrees (leaves, node array, namespace and error of flatten vs flatten_with_path for well-behaved '
                     'flatten functions), C03_iter_leaves (whenever flatten succeeds the lazy iterator yields exactly its leaves in order; agenda '
                     'machine vs recursion), C03_paths_agree (the paths computed on the fly by flatten_with_path equal treespec.paths() of the returned '
                     'treespec - both equal the tree-level listing pathsT of the shape; no predicate), C03_counts, C03_is_leaf_flatten / C03_flatten_is_leaf, C03_all_leaves_true / C03_all_leaves_false (all_leaves is True iff tree_is_leaf is True of every element, False iff the first element not accepted is a non-leaf; an exception of the predicate propagates), C03_error_parity_partial; the full '
                     'error-parity statement is refuted by C03_error_parity_full_false (known finding). Error parity of tree_iter and the '
                     'reductions: correspondence + oracle.' + PARTIAL,
                technique='Lean 4 proof (simulation between two traversals) + correspondence', ref='6 C03'),
    'C04': dict(text='Proved: C04_paths_refines (paths() on the encoding of any shape with one entry per child is the tree-level listing pathsT: '
                     'entries from the root to every leaf, in leaf order), C04_paths_count (one per leaf), C04_paths_of_flatten (holds for every '
                     'treespec made by flatten), C04_path_reaches_leaf (following the i-th path from the tree - position, dict key, registration entry - '
                     'reaches exactly the i-th leaf flatten returned; Lemmas/UpToSelf.lean + UpToAlign.lean), C04_paths_prefix_free (pairwise distinct and prefix-free when the child entries of every node are '
                     'distinct); C04_path_of_accessor (accessor walk and path walk run in lock step: .path of the i-th accessor is the i-th path, any node '
                     'array), C04_path_of_accessor_leaf, C04_resolveEntryKind_not_auto; C04_accessors_refines (accessors() on the encoding of any typed shape is the tree-level '
                     'typed listing accsT; stripping the types gives pathsT; Lemmas/EncAccessors.lean), C04_accessors_of_flatten (for every treespec made by flatten '
                     'accessors() succeeds, one per leaf, and following the entries of the i-th accessor from the tree reaches the i-th leaf), '
                     'C04_accessor_entries_resolved (no entry is the AutoEntry dispatcher). The Python entry classes (__call__ via obj[key] / getattr, codify/eval): oracle only.' + PARTIAL,
                technique='Lean 4 proof (fuel induction over two index walkers) + correspondence', ref='6 C04'),
    'C05': dict(text='Proved about the model of ops.py: C05_calls_in_order, C05_calls_prefix, C05_prefix_failure_before_calls, '
                     'C05_inplace_returns_tree; and through the refinement theorems of C07 (flatten_up_to = structural match against the first '
                     "tree's shape): C05_rest_accepted_iff_suffix (an extra tree is accepted iff the first tree's shape is a prefix of its shape), "
                     'C05_non_suffix_rejected (one non-suffix extra tree makes tree_map fail before any call), C05_rest_one_per_leaf, '
                     'C05_self_rest (the tree matched against its own treespec yields its leaves), C05_rest_aligned (the i-th sub-tree an extra tree contributes is the one reached from it by following the i-th leaf path of '
                     'the first tree: positions, dict keys whatever the dict kind or order, registration entries; Lemmas/UpToAlign.lean). '
                     'C05_map_result (when every extra tree is matched and f returns leaf-typed objects, tree_map returns a tree that flattens to exactly the '
                     'results of the calls, in order, and the treespec of t; the call log is one tuple (leaf_i, subs_1[i], ...) per leaf in flatten order; '
                     'uses C01_replace_leaves), C05_map_pure (tree_map(g, t) = unflatten(treespec(t), map g leaves)), C05_map_identity, C05_map_compose '
                     '(map(f . g) = map(f) . map(g) for leaf-valued g), C05_map_with_path_result (the with_path variant: same result, every call additionally receives the i-th path first), C05_map_with_accessor_result / C05_map_with_accessor_reaches (the with_accessor variant: every call receives the i-th accessor of the treespec first, which - without a predicate - exists and leads from the tree to the i-th leaf), '
                     'C05_inplace_same_calls (the underscore variants log exactly the calls of the variants without underscore). '
                     'The with_accessor variants and walk / traverse: correspondence + reference alignment in the oracle.' + PARTIAL,
                technique='Lean 4 proof about the ops.py model, using the flatten_up_to refinement + correspondence', ref='6 C05'),
    'C06': dict(text='Proved: C06_eq_iff (for all well-formed shapes: == on the post-order encodings is True exactly when the shapes are equal - same '
                     'kinds, arities, classes / metadata / keys in order / maxlen / factory, identical registrations - none_is_leaf agrees and the '
                     'namespaces are compatible; custom entries and remembered key insertion order do not take part), C06_eq_of_flatten (treespecs '
                     'made by flatten are such encodings), C06_shape_eq_refl / _symm / _trans and C06_trans_same_ns (equivalence relation), '
                     'C06_eq_counts; C06_eq_hash (== implies equal hash input for every field selection determined by ==), C06_symm, C06_refl; generated '
                     'obligations C06_hashSpecFields_ok / C06_hashNodeFields_ok / C06_eqFields_ok re-check hashing.cpp and richcomparison.cpp on every run.' + PARTIAL,
                technique='Lean 4 proof with obligations regenerated from the source (translator) + correspondence', ref='6 C06'),
    'C07': dict(text='Proved for all well-formed shapes (STree, Model/STree.lean) of any size and nesting: C07_is_prefix_refines - the array walk of '
                     'PyTreeSpec::IsPrefix over the post-order encodings, including the cut-and-reorder of dict children whose key orders differ '
                     '(cutSegments / reorderSegments), decides exactly the tree-level prefix relation STree.prefixB (children of dict kinds paired by '
                     'key), strict form = some leaf covers an internal node; C07_is_prefix_iff, C07_is_prefix_strict_iff, C07_is_prefix_total (never '
                     'InternalError), C07_prefix_not_larger; plus C07_guards, C07_leaf_is_prefix, C07_flatten_up_to_leaf, '
                     'C07_kind_mismatch_value_error, C07_dict_keyset_mismatch; C07_flatten_up_to_refines (the agenda machine of FlattenUpTo on an '
                     'encoding = structural match STree.upTo, any tree), C07_flatten_up_to_count, C07_up_to_iff_prefix (matching a tree against a '
                     'shape that fits the registry succeeds exactly when the shape is a prefix of shapeOf(tree)), '
                     'C07_flatten_up_to_agrees_with_is_prefix (for p_spec = tree_structure(p): flatten_up_to(p_spec, t) succeeds iff '
                     'p_spec.is_prefix(tree_structure(t)); same configuration, no predicate; flatten = enc . shapeOf by Lemmas/ShapeOf.lean); '
                     'C07_is_prefix_of_flatten (flatten produces such encodings for every '
                     'well-formed tree, configuration, predicate and registry: Lemmas/EncFlatten.lean). That every node array of the real engine is such an encoding is checked '
                     'by the correspondence stream ((is_enc ...) lines). C07_is_prefix_refl, C07_is_prefix_trans (the prefix relation is a preorder: transitivity through any chain of dict kinds / key '
                     'orders), C07_is_prefix_antisymm (mutual prefixes have equal node counts). C07_prefix_errors_agree_partial / C07_prefix_errors_structural_partial '
                     '(Model/PrefixErrors.lean is the Python recursion of optree.prefix_errors over the two trees; for every prefix tree without registered custom nodes - leaves, None, '
                     'tuple, list, deque, dict / OrderedDict / defaultdict in either dict-order mode, unregistered namedtuple / struct-sequence classes, any nesting - and every full tree it '
                     'reports nothing exactly when flatten_up_to of the prefix tree\'s treespec succeeds, with no assumption on registry or flatten functions; Lemmas/PrefixErrors.lean); C07_prefix_errors_agree / C07_three_way (every prefix tree, registered custom nodes included, given a registry that files each registration under its own class and flatten functions returning as many entries as children in both trees: prefix_errors reports nothing <=> flatten_up_to succeeds <=> is_prefix). Outside those assumptions '
                     '(tree_flatten_one_level also validates the full tree\'s flatten function, which flatten_up_to does not) are decided by the (prefix_errors ...) correspondence lines - error kinds '
                     'with accessor paths, misbehaving flatten functions included - plus an independent reference prefix relation and a zoo of class relations in the oracle.' + PARTIAL,
                technique='Lean 4 proof (refinement of the array walk to a tree-level relation, mutual structural induction) + correspondence + reference oracle', ref='6 C07'),
    'C08': dict(text='Proved for all shapes, any pattern of sibling sub-tree sizes: C08_children_refines (children() slices the post-order array by '
                     'num_nodes offsets into exactly the child encodings, in order), C08_child_refines (child(i) = i-th child under Python index '
                     'semantics, IndexError exactly outside [-n, n)), C08_child_of_children, C08_counts_sum, C08_compose_refines (compose = '
                     'substitution of the inner shape for every leaf; result well-formed; leaves multiply), C08_compose_leaf / _leaf_right, '
                     'C08_transform_leaf_refines / C08_transform_leaf_is_compose / C08_transform_id (the left-to-right loop of Transform with its stack '
                     'of pending counts: replacing every leaf by the treespec of b builds the shape compose builds; with the leaf treespec it is the '
                     'identity; Lemmas/EncTransform.lean), C08_rebuild_from_children / C08_rebuild_ordereddict / C08_rebuild_equal (treespec_tuple / list / '
                     'deque / ordereddict over children() rebuild the root: same node array, compatible namespace; Lemmas/EncConstruct.lean); '
                     'C08_normIndex_none/some (Python index semantics), C08_child_index_error, C08_entry_of_entries, C08_one_level, '
                     'C08_compose_counts, C08_compose_rejects, C08_transform_none, C08_make_leaf_none, C08_repr_affixes; C08_compose_is_structure (tree level: replacing every leaf of '
                     'an a-shaped tree by b-shaped trees gives a tree whose treespec has exactly the node array of treespec(a).compose(treespec(b)), whose leaves are '
                     'the leaves of the grafted trees in order, and num_leaves multiply; Lemmas/Graft.lean, structural induction with dict children re-sorted under the same keys); C08_constructor_is_structure / C08_constructor_matches_flatten (for every container the engine handles itself - tuple, list, deque, dict, OrderedDict, defaultdict in either dict-order mode, unregistered namedtuple / struct-sequence classes - treespec_from_collection over the same container holding the treespecs of the children returns exactly the node array tree_structure returns for the tree: the sorting constructors included). C08_transform_node_refines / C08_transform_node_counts (transform with a node function: when f_node answers, for the one-level treespec of every internal node, the one-level treespec of g(node) with the same number of children, and f_leaf the treespec of b, the result is the encoding of the tree with every node rewritten by g and every leaf replaced by b; Lemmas/EncTransformNode.lean relates the run record by record to the identity-on-nodes run). Constructors of registered custom classes and '
                     'node functions that answer something else (errors): correspondence (5000+ lines per run) + oracle.' + PARTIAL,
                technique='Lean 4 proof + correspondence', ref='6 C08'),
    'C09': dict(text='Proved for all well-formed shapes whose payloads fit their kinds, any nesting and any dict key orders: C09_broadcast_refines - the merge walk '
                     'of BroadcastToCommonSuffixImpl over the post-order encodings (integer cursors into both arrays, children last to first, the other '
                     "node's children located by cursor table for dict kinds, result written in reverse post-order with the counts of each node patched "
                     'after every child) returns ValueError exactly when the tree-level least common suffix STree.lub is undefined and otherwise the '
                     'encoding of lub a b; C09_broadcast_cases, C09_lub_leaf, C09_lub_extends_left (the first operand is a prefix of the result, which '
                     'keeps its node types, key order and custom entries), C09_lub_idem / C09_broadcast_idem (idempotence); C09_rejects, C09_leaf_left_go, C09_leaf_right_go, '
                     'C09_kind_conflict. Order theory of the merged shape (Lemmas/LubOrder.lean: normal forms of prefix / lub at a pair of nodes, then mutual '
                     'structural induction with dict children re-paired by key in both directions): C09_lub_closed (result well-formed), '
                     'C09_lub_extends_right (the second operand is a prefix of the result, when each custom class has one registration record among '
                     'the two shapes - is_prefix compares registrations by identity, broadcast by class), C09_lub_least (every common suffix of the '
                     'operands is a suffix of the result, and the merge succeeds whenever a common suffix exists), C09_conflict_iff / '
                     'C09_broadcast_error_iff (ValueError exactly when no common suffix exists), C09_broadcast_is_least (engine level: both operands '
                     '<= result <= every common suffix, via the is_prefix refinement of C07), C09_lub_comm (argument order changes the result only up '
                     'to mutual prefix, i.e. dict kind / key order / entries), C09_lub_of_prefix (a <= b gives b back up to mutual prefix, same size). '
                     'C09_broadcast_prefix_tree (tree level, no predicate: when the prefix treespec matches the full tree, tree_broadcast_prefix builds the prefix shape '
                     'with the matched subtrees grafted on, and its leaves are each prefix leaf repeated once per leaf of the subtree it covers: every leaf equals the '
                     'prefix leaf above it; on unflatten_graft, Lemmas/GraftBuild.lean). That the grafted shape is the shape of the full tree up to dict kind / order, '
                     'and the n-ary tree_broadcast_map: correspondence against the model (bprefix / bcommon / bmap lines) plus a reference least-common-suffix in the oracle.' + PARTIAL,
                technique='Lean 4 proof (refinement of the two-array merge walk to a tree-level lub, induction on fuel + list inductions) + correspondence + reference oracle', ref='6 C09'),
    'C10': dict(text='Proved: C10_chunks_flatten, C10_chunks_row_length, C10_chunks_get, C10_transpose_rows (value at (j,i) = value at (i,j)), '
                     'C10_rejects, C10_wrong_count about the model of tree_transpose; C10_transpose_tree (tree level, global namespace, no predicate: for an outer tree with '
                     'm > 0 leaves, an inner tree with n > 0 leaves and any tree with m * n leaves the model of tree_transpose succeeds, its result has the shape '
                     'inner-of-outer (STree.subst, i.e. compose) and its leaves are the columns of the m x n leaf matrix in order; uses unflatten_graft, '
                     'Lemmas/GraftBuild.lean: what the stack machine builds when it is handed trees instead of leaves - mutual structural induction in '
                     'parallel with the replacement-leaves proof); C10_transpose_involution / C10_transpose_leaves_involution (zip(*zip(*rows)) = rows for every non-empty rectangular matrix: transposing back returns the leaf matrix, hence the leaves, of the original). transpose_map variants: correspondence + oracle.' + PARTIAL,
                technique='Lean 4 proof (list lemmas for chunk/zip) + correspondence', ref='6 C10'),
    'C11': dict(text='Proved: C11_roundtrip (fromPickle (toPickle s) = s for every sane, well-shaped treespec whose registrations resolve), '
                     'C11_missing_registration, generated obligations C11_covers_all_fields_* / C11_model_has_the_same_fields / C11_kind_numbering. '
                     'Pickle byte streams, protocols, copy/deepcopy and a fresh interpreter: implementation oracle only.' + PARTIAL,
                technique='Lean 4 proof with obligations regenerated from the source + correspondence', ref='6 C11'),
    'C12': dict(text='Proved for every class universe and every history: C12_inv (engine variants and Python mirror agree in every reachable state), '
                     'C12_atomic, C12_isolation, C12_builtins, C12_no_double, C12_unregister_absent, C12_get_describes_flatten, '
                     'C12_getall_describes_flatten, C12_inv_any_filter (the invariant for histories whose warnings filter changes at every call), C12_register_then_unregister (reversible: unregistering the class a successful registration added returns all three tables to exactly what they were). Histories exhaustive to a bound + sampled run through the real registry.' + PARTIAL,
                technique='Lean 4 proof (invariant over operation histories) + correspondence on histories', ref='6 C12'),
    'C13': dict(text='Proved for every program of enter/exit/raise events: C13_unwind_invariant, C13_restore, C13_raise_restores, C13_scope*, '
                     'C13_cfg_reads_mode, C13_ordereddict_unaffected. All well-nested programs to a nesting bound run through the real context manager.' + PARTIAL,
                technique='Lean 4 proof (invariant over event sequences) + correspondence on programs', ref='6 C13'),
    'C14': dict(text='Proved about a heap model of hand-outs: C14_handouts_fresh_sound (if every inspection method copies, no sequence of '
                     'inspections and mutations of returned objects changes any internal container; all histories) with converse C14_alias_breaks; '
                     'generated obligations C14_handouts_fresh / C14_handouts_listed / C14_sorts_on_copies / C14_python_operands_unmodified re-read '
                     'treespec.cpp, flatten.cpp, every TotalOrderSort call site and the Python layer (ast) on every run; C14_unflatten_ignores_registry. '
                     'Reference counts, weak references, freeing of the source tree and the cyclic collector are not modelled: observed on the '
                     'implementation only (snapshots around 50 operations, random orders of mutate / unregister / re-register / delete / gc).' + PARTIAL,
                technique='Lean 4 proof (heap-alias invariant over histories) with obligations regenerated from the source + correspondence + runtime oracle', ref='6 C14'),
    'C15': dict(text='Proved: C15_propagates (for every callback program: a fault at invocation k < m yields exactly that exception after k+1 '
                     'invocations, none afterwards; k >= m changes nothing), C15_flattenC_refines (flatten written as a callback program computes '
                     'flatten of the model, every tree / configuration, by mutual structural induction), C15_flatten_fault (both combined), '
                     'C15_malformed_return_errors (never an internal error), C15_guards_cleared / C15_guards_need_cleanup; generated obligations '
                     'C15_cxx_swallow_sites / C15_py_swallow_sites / C15_guard_cleanup_present list every catch block, PyErr_Clear, error-discarding '
                     'CPython API call and Python except handler on every run. Callback counts and outcomes for every fault index go through the '
                     'correspondence (flatten). Unflatten / map / compare / hash / repr faults, exception identity, reference counts and later '
                     'behaviour: implementation oracle, exhaustive in k for ~45 operations per scenario.' + PARTIAL,
                technique='Lean 4 proof (free-monad callback programs, refinement to the flatten model) with obligations regenerated from the source + correspondence + exhaustive fault-index oracle', ref='6 C15'),
    'C16': dict(text='Proved: C16_depth_exact (no predicate, well-behaved custom nodes: flatten succeeds iff the tree has at most maxDepth levels, '
                     'otherwise RecursionError and nothing else; every kind and mixture, mutual structural induction) and C16_depth_parity (same '
                     'threshold in flatten_with_path); C16_loops_safe / C16_unsafe_loop_faults (a loop over a user container with re-entrant '
                     'callbacks faults under some adversary iff it is an unchecked access to a shared mutable container; all adversaries, all '
                     'lengths); C16_guarded_walk_safe / C16_unguarded_walk_faults (recursive walkers vs. C stack); generated obligations '
                     'C16_access_sites_safe, C16_index_sites_bounded (every unchecked item access is indexed by a literal, a for-variable over the '
                     "container's own size, or a counter compared with the bound first; with C16_entries_loop_safe / "
                     "C16_entries_loop_unguarded_faults for the counter-indexed entries tuple), C16_recursive_walkers_guarded, C16_same_guard re-read "
                     'pytypes.h (for the running Python version), flatten.cpp, traversal.cpp, constructor.cpp, treespec.cpp on every run. The machine '
                     'itself (out-of-bounds reads, use-after-free, stack use) is not modelled: each cell of the mutation / malformed-flatten-return / '
                     'confusion / deep-treespec grids runs in a forked '
                     'child (process death = failure); thorough repeats them on an ASan+UBSan build.' + PARTIAL,
                technique='Lean 4 proof (depth induction, adversarial loop machine) with obligations regenerated from the source + correspondence + forked crash grid (ASan in thorough)', ref='6 C16'),
    'C17': dict(text='Proved: C17_deadlock_free (threads under the GIL with engine mutexes that block while holding it: if no lock program '
                     'runs user code inside a mutex scope, no schedule of any number of threads reaches a stuck state; invariant over all '
                     'schedules) with converse C17_callback_under_lock_deadlocks; C17_iterator_exactly_once / C17_iterator_complete (a shared leaf '
                     'iterator: under every interleaving of the consumers at the is_leaf switch points, delivered + pending leaves are a '
                     'permutation of the leaves of the tree); C17_register_once; generated obligation C17_no_callback_under_engine_lock '
                     '(T-locks: every scoped lock guard in src/ and include/, closed over the call graph) re-checked on every run. Pre-emption '
                     'inside C++ (free-threaded builds) and real timing are not modelled: parked-callback scheduler in forked children with an '
                     'alarm (all pairs A x B, every parking position in thorough), randomised pre-emptive schedules.' + PARTIAL,
                technique='Lean 4 proof (scheduler invariant, permutation invariant) with obligations regenerated from the source + correspondence + parked-callback scheduler', ref='6 C17'),
    'C18': dict(text='Proved: C18_sort_twin / C18_sort_spec (the C++ TotalOrderSort with its restore-on-failure and the Python total_order_sorted '
                     'compute the same list for every key list), C18_namedtuple_twin, C18_structseq_twin (C++ and Python classification predicates '
                     'agree on every realisable class description), C18_one_level_twin, C18_cache_inv / C18_cache_transparent (the bounded, '
                     'weakref-evicted memo never changes an answer, every op history); generated obligations C18_sort_restores / '
                     'C18_twin_fields_exact re-read src/ and optree/typing.py on every run. Classes and key lists run through both real twins.' + PARTIAL,
                technique='Lean 4 proof (twin equivalence + cache invariant) with obligations regenerated from the source + correspondence', ref='6 C18'),
    'C19': dict(text='Proved about the model of optree/dataclasses.py and optree/functools.py: C19_partition (children / metadata partition in '
                     'declaration order), C19_rejects, C19_entries, C19_roundtrip_kwargs (the constructor receives every init field once with its '
                     'value), C19_partition_options_irrelevant (slots / frozen / kw_only / order, per-field kw_only / defaults / inheritance and the '
                     'route decorator vs make_dataclass do not enter the partition), C19_partial_roundtrip, C19_call_after_map. '
                     'dataclasses.dataclass itself is not modelled: the implementation oracle builds the same declaration with the stdlib (both '
                     'routes, all option combinations) and compares fields, signature, slots / frozen / order / eq / match_args, repr, re-runs '
                     '__post_init__, checks the class of the rebuilt object, namespace isolation and nested partials.' + PARTIAL,
                technique='Lean 4 proof about the dataclasses.py / functools.py model + correspondence + differential oracle against the stdlib', ref='6 C19'),
    'C20': dict(text='Proved for every array library obeying the recorded concat/reshape/cast contract: C20_ravel_concat, C20_empty, '
                     'C20_unravel_ravel_single, C20_unravel_ravel_mixed, C20_ravel_unravel_single, C20_rejects (splitSizes lemmas, no size bound). '
                     'The libraries themselves (numpy / torch / jax) are a parameter: correspondence runs numpy, the oracle runs all three.' + PARTIAL,
                technique='Lean 4 proof (list split/join lemmas, library as a parameter) + correspondence + oracle on numpy/torch/jax', ref='6 C20'),
}

REASON_PENDING = 'check not built yet in this revision (work in progress; see DESIGN.md section 6 for the plan)'

ALL = [f'C{i:02d}' for i in range(1, 21)]


def main():
    checks = []
    for pid in ALL:
        if pid not in CLAIMED:
            continue
        c = CLAIMED[pid]
        checks.append({
            'property_id': pid,
            'quick_cmd': f'./check {pid} --tier quick',
            'thorough_cmd': f'./check {pid} --tier thorough',
            'evidence_file': f'evidence/{pid}.json',
            'replay_cmd_template': f'./check {pid} --replay {{path}}',
            'engine': 'lean-proof+correspondence',
            'level_claimed': {'category': 'proof', 'text': c['text'], 'design_ref': c['ref']},
            'level_note': c.get('note', NOTE_COMMON),
            'technique': c['technique'],
        })
    manifest = {
        'version': 1,
        'setup_cmd': './setup.sh',
        'hooks': {
            'guard': 'OPTREE_VERIF',
            'enable': 'no hooks are needed: checks build /repo\'s working tree as it is (harness/build_impl.py)',
            'baseline_off_cmd': BASELINE.replace(' --junitxml=<file>', ''),
            'source_commits': [],
            'add_only': True,
        },
        'engines': [{
            'name': 'lean-proof+correspondence',
            'path': 'harness/engine.py',
            'serves_properties': sorted(CLAIMED),
            'kind_free_text': 'Lean 4 theorems about an executable model (lean/), tied to /repo by a line-protocol '
                              'correspondence check and by translators; per-property oracle on the implementation',
        }],
        'checks': checks,
        'not_applicable': [{'property_id': p, 'reason': REASON_PENDING} for p in ALL if p not in CLAIMED],
        'notes': 'See DESIGN.md.  known_findings.txt lists genuine defects found (fixed: / finding: lines).',
    }
    (VERIF / 'MANIFEST.json').write_text(json.dumps(manifest, indent=1) + '\n')


if __name__ == '__main__':
    main()
