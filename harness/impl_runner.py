"""Sub-process that runs cases against the real optree (scratch build first on sys.path).

argv: PROP CASES.jsonl RESULTS.jsonl
For every case: the protocol lines go through `Impl.step` (replies collected) and the property's
oracle is evaluated directly on the implementation.  One JSON result per case is appended and
flushed immediately, so that a crash of the interpreter leaves the finished cases on disk and
identifies the case that crashed.
"""

from __future__ import annotations

import importlib
import json
import os
import sys
import traceback

sys.setrecursionlimit(100000)

HERE = os.path.dirname(os.path.abspath(__file__))
sys.path.insert(0, HERE)


def main():
    prop, cases_path, results_path = sys.argv[1:4]
    from run_impl import Impl  # noqa: PLC0415  (imports optree from the scratch build)
    import optree  # noqa: PLC0415

    mod = importlib.import_module(f'props.{prop}')
    impl = Impl()
    oracle = getattr(mod, 'oracle', None)
    with open(cases_path) as f, open(results_path, 'w') as out:
        out.write(json.dumps({'optree_file': optree.__file__}) + '\n')
        out.flush()
        for raw in f:
            case = json.loads(raw)
            res = {'id': case['id'], 'replies': [], 'failures': []}
            out.write(json.dumps({'start': case['id']}) + '\n')
            out.flush()
            for line in case.get('lines', []):
                res['replies'].append(impl.step(line))
            if oracle is not None and case.get('o') is not None:
                try:
                    res['failures'] = list(oracle(impl, case['o']) or [])
                except Exception as e:  # noqa: BLE001
                    res['failures'] = [{'key': 'oracle-exception',
                                        'what': f'{type(e).__name__}: {e}',
                                        'trace': traceback.format_exc()[-1500:]}]
            out.write(json.dumps(res) + '\n')
            out.flush()
    impl.cleanup()


if __name__ == '__main__':
    main()
