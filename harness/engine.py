"""Common engine of `./check Cxx --tier T [--replay F]` (DESIGN.md §2.1).

1. build the implementation from /repo's working tree (scratch, cached by source hash)
2. run the translators the property needs -> lean/OptreeModel/Generated/*.lean
3. lake build of the property's theorem module + axiom audit + source grep
4. correspondence: generated cases through the implementation and through the Lean driver
5. the property's oracle evaluated directly on the implementation, on the same inputs
6. decide, write evidence/<id>.json, print VIOLATION / KNOWN-FINDING lines, exit 0 / 1 (2 = infra)
"""

from __future__ import annotations

import argparse
import hashlib
import importlib
import json
import os
import re
import subprocess
import sys
import time
from pathlib import Path

sys.setrecursionlimit(100000)
HERE = Path(__file__).resolve().parent
VERIF = HERE.parent
LEAN = VERIF / 'lean'
sys.path.insert(0, str(HERE))

import build_impl  # noqa: E402
from gen import Gen, reg_lines, unreg_lines  # noqa: E402

PYTHON = os.environ.get('VERIF_PYTHON', '/venv/bin/python')
ALL_TRANSLATORS = ['hash_fields', 'node_fields', 'twins', 'fresh', 'swallow', 'access', 'locks']
ALLOWED_AXIOMS = {'propext', 'Classical.choice', 'Quot.sound'}
FORBIDDEN = re.compile(r'\bsorry\b|\badmit\b|^\s*axiom\s|\bnative_decide\b|\bbv_decide\b|'
                       r'implemented_by|\bunsafe\s|maxHeartbeats\s+0\b', re.M)

TRUSTED_BASE = [
    'Lean 4.33.0 kernel (thorough tier: leanchecker re-check of the compiled property module)',
    'axioms allowed per theorem: propext, Classical.choice, Quot.sound (audited with #print axioms on every run)',
    'hand-written executable Lean model of the engine (lean/OptreeModel/Model), validated against /repo by the '
    'correspondence stream of this run (differential testing bounded by the generators below)',
    'translators harness/extract/*.py (regular-expression extraction of declarative facts from /repo)',
    'CPython 3.12 semantics assumed: dict iteration = insertion order; list.sort raises TypeError iff it has to '
    'compare an incomparable pair (DESIGN.md 3.2)',
    'the harness (generators, S-expression protocol, canonicalisation), g++ and the Python running the checks',
]


class Infra(Exception):
    """infrastructure failure: exit 2, never a violation"""


# ------------------------------------------------------------------------------------------------
# Lean side

def strip_lean_comments(src: str) -> str:
    src = re.sub(r'/-.*?-/', '', src, flags=re.S)
    src = re.sub(r'--.*', '', src)
    return src


def lake_build(targets: list[str], timeout=3000) -> tuple[bool, str]:
    p = subprocess.run(['lake', 'build', *targets], cwd=LEAN, capture_output=True, text=True,
                       timeout=timeout)
    return p.returncode == 0, (p.stdout + p.stderr)[-6000:]


def theorem_names(prop: str) -> list[str]:
    f = LEAN / 'OptreeModel' / 'Properties' / f'{prop}.lean'
    if not f.exists():
        return []
    src = strip_lean_comments(f.read_text())
    return re.findall(rf'^theorem\s+({prop}_\w+)', src, flags=re.M)


def lean_sources() -> list[Path]:
    return sorted((LEAN / 'OptreeModel').rglob('*.lean')) + [LEAN / 'Driver.lean']


def source_grep() -> list[str]:
    hits = []
    for f in lean_sources():
        body = strip_lean_comments(f.read_text())
        for m in FORBIDDEN.finditer(body):
            hits.append(f'{f.relative_to(LEAN)}: {m.group(0).strip()}')
    return hits


def audit_axioms(prop: str, names: list[str]) -> dict[str, list[str]]:
    """#print axioms for every property theorem; returns name -> axioms"""
    if not names:
        return {}
    d = LEAN / '.lake' / 'audit'
    d.mkdir(parents=True, exist_ok=True)
    f = d / f'Audit_{prop}.lean'
    body = [f'import OptreeModel.Properties.{prop}', 'open Optree']
    body += [f'#print axioms {n}' for n in names]
    f.write_text('\n'.join(body) + '\n')
    p = subprocess.run(['lake', 'env', 'lean', str(f)], cwd=LEAN, capture_output=True, text=True,
                       timeout=1800)
    out = p.stdout + p.stderr
    res: dict[str, list[str]] = {}
    for n in names:
        m = re.search(rf"'(?:Optree\.)?{re.escape(n)}' depends on axioms: \[([^\]]*)\]", out)
        if m:
            res[n] = [a.strip() for a in m.group(1).replace('\n', ' ').split(',') if a.strip()]
        elif re.search(rf"'(?:Optree\.)?{re.escape(n)}' does not depend on any axioms", out):
            res[n] = []
        else:
            res[n] = ['<audit failed: ' + out[-300:].replace('\n', ' ') + '>']
    return res


def run_model(lines: list[str], workdir: Path) -> list[str]:
    exe = LEAN / '.lake' / 'build' / 'bin' / 'driver'
    inp = workdir / 'model.in'
    inp.write_text('\n'.join(lines) + '\n')
    if exe.exists():
        cmd = [str(exe)]
    else:
        cmd = ['lake', 'env', 'lean', '--run', 'Driver.lean']
    with open(inp) as fin:
        p = subprocess.run(cmd, cwd=LEAN, stdin=fin, capture_output=True, text=True, timeout=3000)
    if p.returncode != 0:
        raise Infra(f'model driver failed: {p.stderr[-2000:]}')
    return p.stdout.splitlines()


# ------------------------------------------------------------------------------------------------
# implementation side

def run_impl(prop: str, build_dir: Path, cases: list[dict], workdir: Path, timeout=3000,
             setup_lines=None, teardown_lines=None, env_extra=None, stack_bytes=None):
    """returns (results by id, crashed_case_id or None, stderr tail)"""
    cases_path = workdir / 'cases.jsonl'
    results_path = workdir / 'results.jsonl'
    all_cases = []
    if setup_lines:
        all_cases.append({'id': -1, 'lines': setup_lines, 'o': None})
    all_cases.extend(cases)
    if teardown_lines:
        all_cases.append({'id': -2, 'lines': teardown_lines, 'o': None})
    with open(cases_path, 'w') as f:
        for c in all_cases:
            f.write(json.dumps(c) + '\n')
    env = dict(os.environ)
    env['PYTHONPATH'] = f'{build_dir}:{HERE}'
    env['PYTHONHASHSEED'] = '0'
    env.pop('PYTHONWARNINGS', None)
    env.update(env_extra or {})

    def _limits():
        if stack_bytes:
            import resource
            soft, hard = resource.getrlimit(resource.RLIMIT_STACK)
            want = stack_bytes if hard == resource.RLIM_INFINITY else min(stack_bytes, hard)
            resource.setrlimit(resource.RLIMIT_STACK, (want, hard))
    try:
        p = subprocess.run([PYTHON, str(HERE / 'impl_runner.py'), prop, str(cases_path),
                            str(results_path)], env=env, capture_output=True, text=True,
                           timeout=timeout, cwd=str(workdir), preexec_fn=_limits)
    except subprocess.TimeoutExpired as e:
        raise Infra(f'implementation runner timed out after {timeout}s') from e
    results: dict[int, dict] = {}
    started = None
    optree_file = None
    if results_path.exists():
        for raw in results_path.read_text().splitlines():
            try:
                r = json.loads(raw)
            except json.JSONDecodeError:
                continue
            if 'optree_file' in r:
                optree_file = r['optree_file']
            elif 'start' in r:
                started = r['start']
            else:
                results[r['id']] = r
                started = None
    if optree_file is not None and not optree_file.startswith(str(build_dir)):
        raise Infra(f'implementation imported from {optree_file}, expected {build_dir}')
    crashed = None
    if p.returncode != 0:
        if started is None and not results:
            raise Infra(f'implementation runner failed to start: {p.stderr[-3000:]}')
        crashed = started
    return results, crashed, p.returncode, p.stderr[-3000:]


# ------------------------------------------------------------------------------------------------
# known findings

def load_findings(prop: str):
    f = VERIF / 'known_findings.txt'
    findings = {}
    if f.exists():
        for line in f.read_text().splitlines():
            line = line.strip()
            m = re.match(r'finding:\s+property=(\w+)\s+key=(\S+)\s+(.*)', line)
            if m and m.group(1) == prop:
                findings[m.group(2)] = m.group(3)
    return findings


# ------------------------------------------------------------------------------------------------

def nontrivial_key(case: dict) -> str:
    return hashlib.sha1('\n'.join(case.get('lines', [])).encode() +
                        json.dumps(case.get('o'), sort_keys=True).encode()).hexdigest()


def main(argv=None):
    ap = argparse.ArgumentParser()
    ap.add_argument('prop')
    ap.add_argument('--tier', default=os.environ.get('VERIF_TIER', 'quick'),
                    choices=['quick', 'thorough'])
    ap.add_argument('--replay', default=None)
    ap.add_argument('--keep', action='store_true')
    args = ap.parse_args(argv)
    prop = args.prop
    seed = int(os.environ.get('VERIF_SEED', '0') or 0)
    t0 = time.time()
    try:
        rc = run_check(prop, args.tier, seed, args.replay, t0)
    except Infra as e:
        print(f'INFRA-ERROR property={prop}: {e}', file=sys.stderr)
        rc = 2
    except subprocess.TimeoutExpired as e:
        print(f'INFRA-ERROR property={prop}: timeout {e}', file=sys.stderr)
        rc = 2
    sys.exit(rc)


def run_check(prop: str, tier: str, seed: int, replay: str | None, t0: float) -> int:
    mod = importlib.import_module(f'props.{prop}')
    workdir = build_impl.SCRATCH / 'work' / f'{prop}-{os.getpid()}'
    workdir.mkdir(parents=True, exist_ok=True)
    replays_dir = VERIF / 'replays'
    replays_dir.mkdir(exist_ok=True)
    findings = load_findings(prop)
    notes: list[str] = []
    if not replay:
        for old in replays_dir.glob(f'{prop}-{seed}-{tier}-*.json'):
            old.unlink()

    # 1. implementation build
    try:
        build_dir = build_impl.build()
    except build_impl.BuildError as e:
        raise Infra(str(e)) from e

    # 2. translators (all of them: the driver imports the generated files) + 3. proofs,
    #    serialised across concurrently running checks
    import fcntl
    gen_notes = []
    names = theorem_names(prop)
    (LEAN / '.lake').mkdir(exist_ok=True)
    with open(LEAN / '.lake' / 'verif.lock', 'w') as lock:
        fcntl.flock(lock, fcntl.LOCK_EX)
        for name in ALL_TRANSLATORS:
            ex = importlib.import_module(f'extract.{name}')
            note = ex.run(build_impl.REPO, LEAN / 'OptreeModel' / 'Generated')
            if name in getattr(mod, 'TRANSLATORS', []):
                gen_notes.append(note)
        proof_ok, build_out = lake_build([f'OptreeModel.Properties.{prop}', 'driver'])
        driver_ok = (LEAN / '.lake' / 'build' / 'bin' / 'driver').exists()
        if not proof_ok and not lake_build(['driver'])[0]:
            driver_ok = False
    broken: list[dict] = []
    axioms: dict[str, list[str]] = {}
    if not proof_ok:
        # find out which declarations failed
        failed = sorted(set(re.findall(r'error: (\S+\.lean):(\d+)', build_out)))
        broken.append({'kind': 'proof-obligation', 'detail': build_out[-3000:],
                       'where': [f'{a}:{b}' for a, b in failed][:10]})
    else:
        axioms = audit_axioms(prop, names)
        for n, ax in axioms.items():
            bad = [a for a in ax if a not in ALLOWED_AXIOMS]
            if bad:
                broken.append({'kind': 'axiom-audit', 'theorem': n, 'axioms': bad})
    grep_hits = source_grep()
    if grep_hits:
        broken.append({'kind': 'source-grep', 'hits': grep_hits})
    leanchecker = None
    if proof_ok and tier == 'thorough' and names:
        p = subprocess.run(['lake', 'env', 'leanchecker', f'OptreeModel.Properties.{prop}'], cwd=LEAN,
                           capture_output=True, text=True, timeout=3000)
        leanchecker = p.returncode == 0
        if not leanchecker:
            broken.append({'kind': 'leanchecker', 'detail': (p.stdout + p.stderr)[-2000:]})

    # 4 + 5. cases
    if replay:
        rp = json.loads(Path(replay).read_text())
        cases = rp['cases']
        for i, c in enumerate(cases):
            c['id'] = i
    else:
        gen = Gen(seed * 1000003 + sum(map(ord, prop)))
        cases = []
        corpus = HERE / 'corpus' / f'{prop}.jsonl'
        if corpus.exists():
            for raw in corpus.read_text().splitlines():
                if raw.strip():
                    cases.append(json.loads(raw))
        cases.extend(mod.generate(gen, tier))
        for i, c in enumerate(cases):
            c['id'] = i
    setup = getattr(mod, 'SETUP_LINES', None)
    if setup is None:
        setup = reg_lines()
        teardown = unreg_lines()
    else:
        teardown = getattr(mod, 'TEARDOWN_LINES', [])

    results, crashed, impl_rc, impl_err = run_impl(prop, build_dir, cases, workdir, setup_lines=setup,
                                                   teardown_lines=teardown,
                                                   timeout=getattr(mod, 'IMPL_TIMEOUT', 3000))
    # sanitizer pass (search support only): the cells that may touch invalid memory, again on an
    # ASan + UBSan build of the engine
    asan_note = None
    if getattr(mod, 'ASAN_TIER', None) == tier or os.environ.get('VERIF_ASAN') == '1' and getattr(mod, 'ASAN_KINDS', None):
        asan_dir = build_impl.build(sanitize=True)
        lib = subprocess.run(['clang-14', '-print-file-name=libclang_rt.asan-x86_64.so'], capture_output=True,
                             text=True).stdout.strip()
        sub = [c for c in cases if (c.get('o') or {}).get('kind') in mod.ASAN_KINDS]
        wd2 = workdir / 'asan'
        wd2.mkdir(exist_ok=True)
        res2, crashed2, rc2, err2 = run_impl(
            prop, asan_dir, sub, wd2, setup_lines=setup, teardown_lines=teardown,
            timeout=getattr(mod, 'IMPL_TIMEOUT', 3000) * 3,
            # instrumented frames are several times larger: give the guarded recursions (<= 1001 levels) room
            stack_bytes=1 << 30,
            env_extra={'LD_PRELOAD': lib, 'ASAN_OPTIONS': 'detect_leaks=0:abort_on_error=1:allocator_may_return_null=1',
                       'UBSAN_OPTIONS': 'halt_on_error=1:print_stacktrace=1'})
        n_asan_fail = 0
        for cid, r in res2.items():
            for f in r.get('failures', []):
                f = dict(f)
                f['key'] = 'asan-' + f.get('key', 'unkeyed')
                f['what'] = '[ASan/UBSan build] ' + str(f.get('what'))
                results.setdefault(cid, {'replies': [], 'failures': []})['failures'].append(f)
                n_asan_fail += 1
        if crashed2 is not None and crashed2 >= 0:
            results.setdefault(crashed2, {'replies': [], 'failures': []})['failures'].append(
                {'key': 'asan-crash', 'what': f'[ASan/UBSan build] the interpreter died (exit status {rc2})', 'stderr': err2[-1500:]})
        asan_note = {'build': str(asan_dir), 'cases': len(sub), 'failures': n_asan_fail}
    model_ok = driver_ok
    disagreements: list[dict] = []
    model_lines = list(setup)
    for c in cases:
        model_lines.extend(c.get('lines', []))
    n_lines = len(model_lines)
    model_replies: list[str] | None = None
    if model_ok and n_lines:
        try:
            model_replies = run_model(model_lines, workdir)
        except Infra as e:
            broken.append({'kind': 'model-driver', 'detail': str(e)})
            model_replies = None
    if model_replies is not None:
        if len(model_replies) != n_lines:
            broken.append({'kind': 'model-driver', 'detail':
                           f'{len(model_replies)} replies for {n_lines} requests'})
        else:
            pos = 0
            sres = results.get(-1)
            for line in setup:
                if sres and sres['replies'][pos] != model_replies[pos]:
                    disagreements.append({'case': -1, 'line': line, 'impl': sres['replies'][pos],
                                          'model': model_replies[pos]})
                pos += 1
            for c in cases:
                r = results.get(c['id'])
                for j, line in enumerate(c.get('lines', [])):
                    m = model_replies[pos]
                    pos += 1
                    if r is None:
                        continue
                    i_rep = r['replies'][j]
                    if getattr(mod, 'compare', None):
                        same = mod.compare(line, i_rep, m)
                    else:
                        same = i_rep == m
                    if not same:
                        disagreements.append({'case': c['id'], 'line': line, 'impl': i_rep, 'model': m})

    # oracle failures
    failures: list[dict] = []
    inconclusive: list[str] = []
    for c in cases:
        r = results.get(c['id'])
        if r is None:
            continue
        for f in r['failures']:
            f = dict(f)
            f['case'] = c['id']
            if 'inconclusive-' in str(f.get('key', '')):
                # an observation that could not be completed (a time limit on a very large input): recorded, not judged
                inconclusive.append(f'case {c["id"]}: {f.get("what")}')
                continue
            failures.append(f)
    if inconclusive:
        notes.append(f'{len(inconclusive)} inconclusive observation(s) (time limit reached, nothing wrong observed): '
                     + '; '.join(inconclusive[:6]))
    if crashed is not None and crashed >= 0:
        failures.append({'case': crashed, 'key': 'crash',
                         'what': f'the interpreter died (exit status {impl_rc}) while running this case'})
    elif crashed is not None:
        raise Infra(f'implementation runner died in setup/teardown: {impl_err}')

    # 6. decide
    by_id = {c['id']: c for c in cases}
    violations = []
    known_hit: dict[str, int] = {}
    explained_cases = set()
    for f in failures:
        key = f.get('key', 'unkeyed')
        if key in findings:
            known_hit[key] = known_hit.get(key, 0) + 1
            explained_cases.add(f['case'])
        else:
            violations.append(f)
    unexplained = [d for d in disagreements
                   if d['case'] not in explained_cases
                   and not any(v['case'] == d['case'] for v in violations)]
    for d in disagreements:
        # a disagreement on a case whose oracle failures are all known findings is the finding itself
        pass

    out_lines = []
    rc = 0
    if disagreements:
        (replays_dir / f'{prop}-{seed}-{tier}-disagreements.json').write_text(
            json.dumps(disagreements[:200], indent=1))
    for key, n in sorted(known_hit.items()):
        out_lines.append(f'KNOWN-FINDING: property={prop} {key}: {findings[key]} ({n} case(s) in this run)')
    stamp = f'{prop}-{seed}-{tier}'
    if violations:
        # minimise: report the smallest failing case per key
        per_key: dict[str, dict] = {}
        for v in violations:
            k = v.get('key', 'unkeyed')
            c = by_id.get(v['case'], {})
            size = len(json.dumps(c))
            if k not in per_key or size < per_key[k]['size']:
                per_key[k] = {'size': size, 'v': v, 'case': c}
        for n, (k, e) in enumerate(sorted(per_key.items())):
            path = replays_dir / f'{stamp}-{n}.json'
            path.write_text(json.dumps({
                'property': prop, 'kind': 'property-violation-on-implementation', 'key': k,
                'what': e['v'].get('what'), 'detail': e['v'], 'cases': [e['case']],
                'replay_cmd': f'./check {prop} --replay {path.relative_to(VERIF)}',
            }, indent=1))
            out_lines.append(f'VIOLATION property={prop} replay={path.relative_to(VERIF)}')
        rc = 1
    if (unexplained or broken) and not violations:
        # the property is no longer shown to hold; the oracle found no failing input on everything
        # this run explored (corpus + generated cases): report that honestly
        path = replays_dir / f'{stamp}-unproved.json'
        path.write_text(json.dumps({
            'property': prop, 'kind': 'no-failing-input-found',
            'broken_obligations': broken,
            'correspondence_disagreements': unexplained[:20],
            'cases': [by_id[d['case']] for d in unexplained[:20] if d['case'] in by_id],
            'searched': f'{len(cases)} generated cases (tier {tier}, seed {seed}) through the '
                        f'implementation oracle of {prop}',
        }, indent=1))
        out_lines.append(f'VIOLATION property={prop} replay={path.relative_to(VERIF)} no-failing-input-found')
        rc = 1
    elif (unexplained or broken) and violations:
        notes.append(f'{len(unexplained)} correspondence disagreement(s) and {len(broken)} broken '
                     f'obligation(s) accompany the violation(s) above')

    # evidence
    distinct = {}
    nontrivial = getattr(mod, 'nontrivial', lambda c: True)
    for c in cases:
        if nontrivial(c):
            distinct[nontrivial_key(c)] = True
    obligations = len(names) + len(getattr(mod, 'TRANSLATORS', []))
    discharged = 0
    if proof_ok:
        discharged = sum(1 for n in names if all(a in ALLOWED_AXIOMS for a in axioms.get(n, ['?'])))
        discharged += len(getattr(mod, 'TRANSLATORS', []))
    coverage = {
        'obligations': obligations,
        'discharged': discharged,
        'checker_cmd': f'cd lean && lake build OptreeModel.Properties.{prop} && lake env lean .lake/audit/Audit_{prop}.lean'
                       + (' && lake env leanchecker OptreeModel.Properties.' + prop if tier == 'thorough' else ''),
        'trusted_base': TRUSTED_BASE + getattr(mod, 'EXTRA_TRUST', []),
        'theorems': {n: axioms.get(n, []) for n in names},
        'leanchecker': leanchecker,
        'generated_facts': gen_notes,
        'sanitizer_pass': asan_note,
        'evaluations': len(cases),
        'distinct_nontrivial': len(distinct),
        'rule': getattr(mod, 'RULE', 'cases generated from VERIF_SEED; distinct by text; non-trivial = has an internal node or an error'),
        'samples': [c.get('lines', [])[:2] or c.get('o') for c in cases[:3]],
        'correspondence_lines': n_lines,
        'correspondence_disagreements': len(disagreements),
        'oracle_failures_known': known_hit,
        'oracle_failures_new': len(violations),
        'distribution': mod.distribution(cases) if hasattr(mod, 'distribution') else {},
        'exhaustive': False,
        'notes': notes,
    }
    ev = {
        'property_id': prop, 'tier': tier, 'seed': seed, 'level': 'proof', 'coverage': coverage,
        'assumptions': getattr(mod, 'ASSUMPTIONS', []),
        'wall_s': round(time.time() - t0, 2),
        'violations': len(violations) + (1 if (unexplained or broken) and not violations else 0),
    }
    if not replay:
        (VERIF / 'evidence').mkdir(exist_ok=True)
        (VERIF / 'evidence' / f'{prop}.json').write_text(json.dumps(ev, indent=1) + '\n')
    for line in out_lines:
        print(line)
    print(f'{prop} {tier} seed={seed}: {len(cases)} cases, {n_lines} correspondence lines, '
          f'{len(disagreements)} disagreements, {len(failures)} oracle failures '
          f'({sum(known_hit.values())} known), theorems {discharged}/{obligations}, '
          f'{time.time() - t0:.1f}s -> exit {rc}')
    import shutil
    shutil.rmtree(workdir, ignore_errors=True)
    return rc


if __name__ == '__main__':
    main()
