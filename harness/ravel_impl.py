"""C20: tree_ravel on the array back-ends (numpy for the correspondence; jax / torch in the oracle)."""

from __future__ import annotations

import warnings

import numpy as np

from sexp import A

NP_DTYPES = [np.bool_, np.int8, np.int16, np.int32, np.int64, np.float32, np.float64, np.complex64, np.complex128]


def code_of(dt):
    dt = np.dtype(dt)
    for i, d in enumerate(NP_DTYPES):
        if np.dtype(d) == dt:
            return i
    return -1


def mk(arr):
    _, shape, dt, data = arr
    vals = [int(x) for x in data]
    if int(dt) >= 7:
        # complex leaves: the protocol integer d stands for (d & 7) + (d >> 3) j, so imaginary parts are exercised
        vals = [complex(d & 7, d >> 3) for d in vals]
    a = np.array(vals, dtype=NP_DTYPES[int(dt)]).reshape([int(x) for x in shape])
    return relayout(a, (sum(int(x) for x in data) + 3 * len(shape) + int(dt)) % 6)


def relayout(a, how):
    """the same logical array in another memory layout (the protocol fixes values, shape and dtype only)"""
    if a.ndim == 0:
        return a
    if how == 1:
        return np.asfortranarray(a)                                  # column-major
    if how == 2 and a.ndim >= 2:
        return np.ascontiguousarray(np.moveaxis(a, 0, -1)).transpose([a.ndim - 1, *range(a.ndim - 1)])   # permuted-axes view
    if how == 3:
        return np.repeat(a, 2, axis=-1)[..., ::2]                    # strided view
    if how == 4:
        return np.ascontiguousarray(a[::-1])[::-1]                   # negative stride
    return a


def enc(a):
    a = np.asarray(a)
    flat = np.ravel(a)
    vals = [int(v.real) + 8 * int(v.imag) if np.iscomplexobj(flat) else int(v) for v in flat]
    return [A('arr'), [int(x) for x in a.shape], code_of(a.dtype), vals]


def run(req):
    from optree.integration.numpy import tree_ravel
    leaves = [mk(a) for a in req[3:]]
    flat, unravel = tree_ravel(leaves)

    def out(f):
        try:
            with warnings.catch_warnings():
                warnings.simplefilter('ignore')
                return [A('ok'), *[enc(x) for x in f()]]
        except Exception as e:  # noqa: BLE001
            return [A('err'), A(type(e).__name__)]
    longer = np.concatenate([flat, np.zeros(1, dtype=flat.dtype)])
    other = flat.astype(np.float64 if flat.dtype == np.complex128 else np.complex128)
    r_other = out(lambda: unravel(other))
    return [enc(flat), out(lambda: unravel(flat)), out(lambda: unravel(longer)),
            A('accepted') if r_other[0] == 'ok' else r_other]
