"""Structured generators for the correspondence streams and the implementation oracles.

All randomness comes from one `random.Random(seed)`; a case replays from (seed, index).
Trees are produced directly as S-expressions (lists / Atoms / strs) of the protocol grammar.
"""

from __future__ import annotations

import itertools
import random

from sexp import A, Atom, render

NT_ARITY = [2, 3, 0, 1, 2]
SS_ARITY = [2, 5, 9, 10]
NUM_LEAF_TYPES = 10

# the standard registry of the tree-level streams: (ns, clsKind, cls, entryKind, mode)
STD_REGISTRY = [
    ('', 0, 0, 'auto', 'two'),
    ('', 0, 1, 'getattr', 'named'),
    ('a', 0, 2, 'getitem', 'shifted'),
    ('', 0, 3, 'getitem', 'none3'),
    ('a', 0, 3, 'getattr', 'named'),
    ('b', 0, 4, 'getitem', 'shifted'),
    ('', 0, 6, 'auto', 'none3'),
    ('a', 1, 3, 'auto', 'two'),          # namedtuple class Single registered as custom in 'a'
    ('b', 1, 0, 'auto', 'none3'),        # namedtuple class Point registered as custom in 'b'
]
# user class 5 and 7 are never registered (always leaves)
NAMESPACES = ['', 'a', 'b', 'zz']        # 'zz' has no registrations ("unknown namespace")
KEY_TAGS_ORDERABLE = ['vk.KO', 'vk.KP']
# 'vk.Alpha.KZ' is a nested class: by qualified name it sorts before 'vk.KB', by bare class name after it
KEY_TAGS_UNORDERABLE = ['vk.KU', 'vk.KV', 'vk.Alpha.KZ', 'vk.KB']


def reg_lines(registry=STD_REGISTRY):
    return [render([A('reg'), ns, ck, cls, A(ek), A(mode)]) for ns, ck, cls, ek, mode in registry]


def unreg_lines(registry=STD_REGISTRY):
    return [render([A('unreg'), ns, ck, cls]) for ns, ck, cls, _, _ in reversed(registry)]


class Gen:
    def __init__(self, seed: int):
        self.rng = random.Random(seed)
        self.uid = 0
        self.kuid = 0

    # ------------------------------------------------------------------ atoms
    def fresh_uid(self):
        self.uid += 1
        return self.uid

    def leaf(self, ty=None):
        if ty is None:
            ty = 0 if self.rng.random() < 0.6 else self.rng.randrange(NUM_LEAF_TYPES)
        return [A('L'), ty, self.fresh_uid()]

    def key_obj(self, tag, orderable, rank=None):
        self.kuid += 1
        if rank is None:
            rank = self.rng.randrange(6)
        return [A('o'), tag, A('1' if orderable else '0'), rank, self.kuid]

    def keyset(self, n: int, style=None):
        """n pairwise distinct keys in a random insertion order"""
        rng = self.rng
        if style is None:
            style = rng.choices(
                ['int', 'str', 'mixed', 'tup', 'ord', 'ord2', 'unord1', 'unord', 'all', 'tied'],
                weights=[22, 26, 14, 6, 6, 4, 5, 7, 10, 7])[0]
        keys = []
        used = set()

        def add(k):
            r = render(k)
            if r not in used:
                used.add(r)
                keys.append(k)
                return True
            return False

        def rand_int():
            return [A('i'), rng.randrange(-3, 12)]

        def rand_str():
            return [A('s'), rng.choice(['a', 'b', 'c', 'd', 'e', 'B', 'ab', 'z', '', '10', 'x y'])]

        def rand_tup():
            return [A('t'), *[rng.randrange(0, 3) for _ in range(rng.randrange(0, 3))]]

        tries = 0
        while len(keys) < n and tries < 200:
            tries += 1
            if style == 'int':
                add(rand_int())
            elif style == 'str':
                add(rand_str())
            elif style == 'tup':
                add(rand_tup())
            elif style == 'mixed':
                add(rng.choice([rand_int, rand_str, rand_tup])())
            elif style == 'ord':
                add(self.key_obj(KEY_TAGS_ORDERABLE[0], True))
            elif style == 'tied':
                # orderable objects of one class with only two ranks: many keys are neither < nor > one another
                # (a sort must keep tied keys in insertion order: stability, also under reverse / lazy iteration)
                add(self.key_obj(KEY_TAGS_ORDERABLE[0], True, rank=rng.randrange(2)))
            elif style == 'ord2':
                add(self.key_obj(rng.choice(KEY_TAGS_ORDERABLE), True))
            elif style == 'unord1':
                # at most one unorderable object per tag: stage 2 succeeds
                pool = [rand_int, rand_str]
                free = [t for t in KEY_TAGS_UNORDERABLE if not any(k[0] == 'o' and k[1] == t for k in keys)]
                if free and rng.random() < 0.8:
                    add(self.key_obj(rng.choice(free), False))
                else:
                    add(rng.choice(pool)())
            elif style == 'unsortable':
                # at least two unorderable objects of one class: both sort attempts fail (insertion order is kept)
                tags = [k[1] for k in keys if k[0] == 'o' and k[2] == '0']
                if len(keys) < 2 or len(tags) != len(set(tags)):
                    add(self.key_obj(tags[0] if tags else rng.choice(KEY_TAGS_UNORDERABLE), False))
                else:
                    add(rng.choice([rand_int, rand_str, lambda: self.key_obj(rng.choice(KEY_TAGS_UNORDERABLE), False)])())
            elif style == 'unord':
                if rng.random() < 0.5:
                    add(self.key_obj(rng.choice(KEY_TAGS_UNORDERABLE), False))
                else:
                    add(rng.choice([rand_int, rand_str])())
            else:
                c = rng.random()
                if c < 0.3:
                    add(rand_int())
                elif c < 0.6:
                    add(rand_str())
                elif c < 0.7:
                    add(rand_tup())
                elif c < 0.85:
                    add(self.key_obj(rng.choice(KEY_TAGS_ORDERABLE), True))
                else:
                    add(self.key_obj(rng.choice(KEY_TAGS_UNORDERABLE), False))
        rng.shuffle(keys)
        return keys

    def md(self):
        rng = self.rng
        c = rng.random()
        if c < 0.3:
            return A('N')
        if c < 0.6:
            return [A('i'), rng.randrange(0, 9)]
        if c < 0.8:
            return [A('s'), rng.choice(['m', 'n', ''])]
        return [A('t'), rng.randrange(3), rng.randrange(3)]

    # ------------------------------------------------------------------ trees
    KINDS = ['T', 'l', 'D', 'O', 'DD', 'Q', 'NT', 'SS', 'U', 'N', 'L']

    def tree(self, depth=4, width=4, kinds=None, weights=None, quirks=False, leaf_p=0.06,
             key_style=None):
        rng = self.rng
        kinds = kinds or self.KINDS
        if depth <= 0 or rng.random() < leaf_p:
            c = rng.random()
            if c < 0.12 and 'N' in kinds:
                return A('N')
            return self.leaf()
        kind = rng.choices(kinds, weights=weights)[0] if weights else rng.choice(kinds)

        def sub():
            return self.tree(depth - 1, width, kinds, weights, quirks, min(0.55, leaf_p + 0.17), key_style)

        def nkids():
            return rng.choice([0, 1, 1, 2, 2, 2, 3, 3, width])

        if kind == 'L':
            return self.leaf()
        if kind == 'N':
            return A('N')
        if kind == 'T':
            return [A('T'), *[sub() for _ in range(nkids())]]
        if kind == 'l':
            return [A('l'), *[sub() for _ in range(nkids())]]
        if kind in ('D', 'O'):
            ks = self.keyset(nkids(), key_style)
            return [A(kind), *[[k, sub()] for k in ks]]
        if kind == 'DD':
            ks = self.keyset(nkids(), key_style)
            f = rng.choice([A('N'), 0, 1, 2, 3])
            return [A('DD'), f, *[[k, sub()] for k in ks]]
        if kind == 'Q':
            n = nkids()
            # maxlen values above 256 are fresh int objects on every `deque.maxlen` access (identity vs value)
            maxlen = rng.choice([A('N'), A('N'), n, n + 1, n + 3, 300 + n, 10**9 + n])
            return [A('Q'), maxlen, *[sub() for _ in range(n)]]
        if kind == 'NT':
            c = rng.randrange(len(NT_ARITY))
            return [A('NT'), c, *[sub() for _ in range(NT_ARITY[c])]]
        if kind == 'SS':
            c = rng.choices(range(len(SS_ARITY)), weights=[5, 3, 1, 1])[0]
            d = depth - 1 if SS_ARITY[c] <= 2 else min(depth - 1, 1)
            return [A('SS'), c, *[self.tree(d, width, kinds, weights, quirks, 0.7, key_style)
                                  for _ in range(SS_ARITY[c])]]
        if kind == 'U':
            c = rng.randrange(8)
            q = A('ok')
            if quirks and rng.random() < 0.3:
                q = A(rng.choice(['len1', 'len4', 'ent-', 'ent+']))
            n = nkids()
            if q == 'ent-' and n == 0:
                n = 1
            return [A('U'), c, self.md(), q, *[sub() for _ in range(n)]]
        raise ValueError(kind)

    def leafless(self, depth=3):
        """a subtree without leaves (None nodes and empty containers only), nested up to `depth`"""
        rng = self.rng
        if depth <= 0 or rng.random() < 0.25:
            return rng.choice([A('N'), [A('T')], [A('l')], [A('D')], [A('O')], [A('Q'), A('N')], [A('NT'), 2]])
        kind = rng.choice(['T', 'l', 'D', 'O', 'Q', 'NT3', 'U'])
        n = rng.choice([1, 1, 2, 3])
        kids = [self.leafless(depth - 1) for _ in range(n)]
        if kind in ('T', 'l'):
            return [A(kind), *kids]
        if kind in ('D', 'O'):
            return [A(kind), *[[k, c] for k, c in zip(self.keyset(n, 'str'), kids)]]
        if kind == 'Q':
            return [A('Q'), A('N'), *kids]
        if kind == 'NT3':
            return [A('NT'), 3, kids[0]]
        return [A('U'), rng.choice([1, 3]), A('N'), A('ok'), *kids]

    def with_leafless(self, t, p=0.3, depth=3):
        """replace some leaves of `t` by leafless subtrees (keeps at least the first leaf)"""
        state = {'first': True}

        def go(x):
            if isinstance(x, Atom):
                return x
            if x[0] == 'L':
                if state['first']:
                    state['first'] = False
                    return x
                return self.leafless(depth) if self.rng.random() < p else x
            return map_children(x, go)
        return go(t)

    def cfg(self, ns=None, nil=None, pred=None, ordered=None):
        rng = self.rng
        if ns is None:
            ns = rng.choice(NAMESPACES)
        if nil is None:
            nil = rng.random() < 0.35
        if pred is None:
            pred = 0 if rng.random() < 0.5 else rng.randrange(1, 8)
        if ordered is None:
            c = rng.random()
            if c < 0.6:
                ordered = []
            elif c < 0.75:
                ordered = [ns] if ns else ['']
            elif c < 0.85:
                ordered = ['']
            elif c < 0.93:
                ordered = [rng.choice(['a', 'b'])]
            else:
                ordered = ['a', '']
        return [A('cfg'), A('1' if nil else '0'), ns, pred, list(ordered)]

    def chain(self, kind: str, depth: int, bottom=None):
        """a `depth`-deep chain of single-child containers of the given kind"""
        t = bottom if bottom is not None else self.leaf(0)
        for _ in range(depth):
            if kind == 'T':
                t = [A('T'), t]
            elif kind == 'l':
                t = [A('l'), t]
            elif kind == 'D':
                t = [A('D'), [[A('s'), 'k'], t]]
            elif kind == 'O':
                t = [A('O'), [[A('s'), 'k'], t]]
            elif kind == 'DD':
                t = [A('DD'), A('N'), [[A('s'), 'k'], t]]
            elif kind == 'Q':
                t = [A('Q'), A('N'), t]
            elif kind == 'NT':
                t = [A('NT'), 3, t]
            elif kind == 'U':
                t = [A('U'), 0, A('N'), A('ok'), t]
            else:
                raise ValueError(kind)
        return t


# ----------------------------------------------------------------------------------------------
# measuring what was generated

def tree_stats(t, stats=None):
    """node-kind histogram, size and depth of an S-expression tree"""
    if stats is None:
        stats = {'size': 0, 'depth': 0, 'kinds': {}}

    def go(x, d):
        stats['size'] += 1
        stats['depth'] = max(stats['depth'], d)
        if isinstance(x, Atom):
            stats['kinds']['N'] = stats['kinds'].get('N', 0) + 1
            return
        tag = str(x[0])
        stats['kinds'][tag] = stats['kinds'].get(tag, 0) + 1
        if tag in ('T', 'l'):
            for c in x[1:]:
                go(c, d + 1)
        elif tag in ('D', 'O'):
            for _, c in x[1:]:
                go(c, d + 1)
        elif tag == 'DD':
            for _, c in x[2:]:
                go(c, d + 1)
        elif tag in ('Q', 'NT', 'SS'):
            for c in x[2:]:
                go(c, d + 1)
        elif tag == 'U':
            for c in x[4:]:
                go(c, d + 1)

    go(t, 0)
    return stats


def small_trees(max_nodes: int, leaf_factory):
    """all trees with at most `max_nodes` nodes over a small kind alphabet (exhaustive tier)"""
    def shapes(n):
        # compositions of n-1 remaining nodes into children
        if n == 1:
            yield ('leaf',)
            yield ('none',)
            yield ('node', ())
            return
        for parts in compositions(n - 1):
            for kids in itertools.product(*[list(shapes(p)) for p in parts]):
                yield ('node', kids)

    def compositions(n):
        if n == 0:
            yield ()
            return
        for first in range(1, n + 1):
            for rest in compositions(n - first):
                yield (first, *rest)

    out = []
    for n in range(1, max_nodes + 1):
        out.extend(shapes(n))
    return out


# ----------------------------------------------------------------------------------------------
# pair generators (prefix / suffix / variants / near misses)

def children_slots(t):
    """(start index of the children inside the S-expression, are-they-pairs?)"""
    if isinstance(t, Atom):
        return None
    tag = t[0]
    if tag in ('T', 'l'):
        return 1, False
    if tag in ('D', 'O'):
        return 1, True
    if tag == 'DD':
        return 2, True
    if tag in ('Q', 'NT', 'SS'):
        return 2, False
    if tag == 'U':
        return 4, False
    return None


def map_children(t, f):
    slots = children_slots(t)
    if slots is None:
        return t
    start, pairs = slots
    head = list(t[:start])
    if pairs:
        return head + [[k, f(v)] for k, v in t[start:]]
    return head + [f(c) for c in t[start:]]


def substitute_leaves(gen, t, p=0.4, depth=2):
    """a suffix of `t`: some leaves replaced by sub-trees"""
    if isinstance(t, Atom):
        return t
    if t[0] == 'L':
        if gen.rng.random() < p:
            return gen.tree(depth=depth, width=3, leaf_p=0.0)
        return t
    return map_children(t, lambda c: substitute_leaves(gen, c, p, depth))


def relabel_leaves(gen, t):
    if isinstance(t, Atom):
        return t
    if t[0] == 'L':
        return gen.leaf(0)
    return map_children(t, lambda c: relabel_leaves(gen, c))


def vary_dicts(gen, t, p_kind=0.5, p_order=0.7, p_maxlen=0.5):
    """same structure up to dict kind / key order / default factory / deque maxlen"""
    rng = gen.rng
    if isinstance(t, Atom) or t[0] == 'L':
        return t
    t = map_children(t, lambda c: vary_dicts(gen, c, p_kind, p_order, p_maxlen))
    tag = t[0]
    if tag in ('D', 'O', 'DD'):
        items = list(t[1:] if tag != 'DD' else t[2:])
        if rng.random() < p_order:
            rng.shuffle(items)
        new = tag
        if rng.random() < p_kind:
            new = rng.choice(['D', 'O', 'DD'])
        if new == 'DD':
            f = t[1] if tag == 'DD' and rng.random() < 0.5 else rng.choice([A('N'), 0, 1, 2, 3])
            return [A('DD'), f, *items]
        return [A(new), *items]
    if tag == 'Q' and rng.random() < p_maxlen:
        n = len(t) - 2
        return [A('Q'), rng.choice([A('N'), n, n + 2]), *t[2:]]
    return t


def all_nodes(t, path=()):
    out = [(path, t)]
    slots = children_slots(t)
    if slots:
        start, pairs = slots
        for i, c in enumerate(t[start:]):
            out.extend(all_nodes(c[1] if pairs else c, path + (start + i,)))
    return out


def replace_at(t, path, new):
    if not path:
        return new
    t = list(t)
    i = path[0]
    slots = children_slots(t)
    if slots[1]:
        t[i] = [t[i][0], replace_at(t[i][1], path[1:], new)]
    else:
        t[i] = replace_at(t[i], path[1:], new)
    return t


def near_miss(gen, t):
    """one local edit that changes the structure at one node"""
    rng = gen.rng
    nodes = [(p, n) for p, n in all_nodes(t)]
    for _ in range(20):
        path, n = rng.choice(nodes)
        if isinstance(n, Atom):      # None -> leaf or empty tuple
            return replace_at(t, path, rng.choice([gen.leaf(0), [A('T')]])), 'none-node'
        tag = n[0]
        if tag == 'L':
            continue
        edits = []
        if tag in ('T', 'l'):
            edits += ['kind', 'arity+', 'arity-']
        if tag in ('D', 'O', 'DD'):
            edits += ['key', 'arity+', 'arity-', 'to-list']
        if tag == 'Q':
            edits += ['arity+', 'arity-', 'to-list']
        if tag == 'NT':
            edits += ['class', 'to-tuple']
        if tag == 'SS':
            edits += ['to-tuple']
        if tag == 'U':
            edits += ['md', 'arity+', 'arity-', 'ucls']
        e = rng.choice(edits)
        n = list(n)
        slots = children_slots(n)
        start = slots[0]
        if e == 'kind':
            n[0] = A('l' if tag == 'T' else 'T')
        elif e == 'arity+':
            if slots[1]:
                n.append([[A('s'), 'zzz-extra'], gen.leaf(0)])
            else:
                n.append(gen.leaf(0))
                if tag == 'Q' and n[1] != 'N' and int(n[1]) < len(n) - 2:
                    n[1] = len(n) - 2
        elif e == 'arity-':
            if len(n) <= start:
                continue
            n.pop()
        elif e == 'key':
            if len(n) <= start:
                continue
            i = rng.randrange(start, len(n))
            n[i] = [[A('s'), 'zzz-renamed'], n[i][1]]
        elif e == 'to-list':
            kids = [c[1] if slots[1] else c for c in n[start:]]
            n = [A('l'), *kids]
        elif e == 'to-tuple':
            n = [A('T'), *n[2:]]
        elif e == 'class':
            c = int(n[1])
            alt = {0: 4, 4: 0}.get(c)
            if alt is None:
                continue
            n[1] = alt
        elif e == 'md':
            n[2] = [A('s'), 'zzz-md']
        elif e == 'ucls':
            n[1] = (int(n[1]) + 1) % 8
        return replace_at(t, path, n), e
    return [A('T'), t], 'wrapped'
