#!/bin/bash
# run before every commit of /verif: Generated/*.lean fresh from /repo, whole Lean project builds, no sorry, manifest valid
set -e
cd "$(dirname "$0")/.."
test -z "$(git -C /repo status --short)" || { echo "/repo working tree is not clean"; exit 1; }
/venv/bin/python harness/regen.py > /dev/null
(cd lean && lake build 2>&1 | tail -1 | grep -q "Build completed successfully") || { echo "lake build FAILED"; exit 1; }
! grep -rn "\bsorry\b" lean/OptreeModel --include=*.lean | grep -v "^\S*:\s*--" || { echo "sorry found"; exit 1; }
python3 harness/mk_manifest.py
python3-vt -c "
import json,jsonschema
jsonschema.validate(json.load(open('MANIFEST.json')), json.load(open('/root/.vp/MANIFEST.schema.json')))
print('precommit ok')"
