"""C17: a cooperative scheduler that parks one thread inside a callback the engine invokes and runs a
second operation meanwhile.  Every schedule runs in a forked child with an alarm: a thread that waits
for an engine mutex while holding the GIL freezes the whole interpreter, which only the kernel can
report."""

from __future__ import annotations

import collections
import threading
import warnings

import optree

import universe
from mem_impl import in_child
from universe import Lf, key_class

NS = 'c17'
KU = key_class('vk.KU', False)
KO = key_class('vk.KO', True)


class Node:
    def __init__(self, md, kids):
        self.md = md
        self.kids = list(kids)


class Other:
    pass


class HookMeta(type):
    """a metaclass whose attribute lookups and repr are user code"""

    def __repr__(cls):
        if universe.CALLBACK_HOOK is not None:
            universe.CALLBACK_HOOK('meta-repr', cls)
        return f'<hooked class {cls.__name__}>'

    def __getattribute__(cls, name):
        if name in ('_fields', 'n_sequence_fields', '_make', '_asdict') and universe.CALLBACK_HOOK is not None:
            universe.CALLBACK_HOOK('meta-getattr', cls)
        return super().__getattribute__(name)


class Hooked(metaclass=HookMeta):
    pass


NT = collections.namedtuple('NT', ['a', 'b'])

_ready = False


def _node_flatten(n):
    if universe.CALLBACK_HOOK is not None:
        universe.CALLBACK_HOOK('flatten', n)
    return tuple(n.kids), n.md, tuple(f'k{i}' for i in range(len(n.kids)))


def _node_unflatten(md, kids):
    if universe.CALLBACK_HOOK is not None:
        universe.CALLBACK_HOOK('unflatten', Node)
    return Node(md, kids)


def ensure():
    global _ready
    if not _ready:
        optree.register_pytree_node(Node, _node_flatten, _node_unflatten, namespace=NS)
        _ready = True


def context():
    ensure()
    leaves = [Lf(7 * 10**6 + i) for i in range(8)]
    md = KU(1, 900)
    tree = {KO(2, 901): Node(md, [leaves[0], (leaves[1], None)]), KO(1, 902): [leaves[2], Node(KU(2, 903), [leaves[3]])],
            'z': {KU(3, 904): leaves[4], KU(4, 905): leaves[5]}, 'y': collections.deque([leaves[6], leaves[7]])}
    spec = optree.tree_structure(tree, namespace=NS)
    spec_b = optree.tree_structure(tree, namespace=NS)
    return {'tree': tree, 'leaves': optree.tree_leaves(tree, namespace=NS), 'spec': spec, 'spec_b': spec_b,
            'HNT': fresh_hooked_nt()}


def enc(r):
    if isinstance(r, optree.PyTreeSpec):
        return 'S:' + str(r.num_leaves) + ':' + str(r.num_nodes)
    if isinstance(r, Lf):
        return f'L{r.uid}'
    if isinstance(r, Node):
        return 'Node(' + enc(r.md) + ',' + enc(r.kids) + ')'
    if isinstance(r, (list, tuple, collections.deque)):
        return type(r).__name__ + '[' + ','.join(enc(x) for x in r) + ']'
    if isinstance(r, dict):
        return 'dict[' + ','.join(f'{k!r}:{enc(v)}' for k, v in r.items()) + ']'
    return repr(r)


REG_CLASSES = None


def _reg_classes():
    global REG_CLASSES
    if REG_CLASSES is None:
        REG_CLASSES = [(NT, 'c17nt', NT(1, 2)), (Other, 'c17o', Other()), (Hooked, 'c17h', Hooked())]
    return REG_CLASSES


def views():
    """what the three views of the registry (Python mirror, none-is-node engine table, none-is-leaf engine table)
    say about the classes the registration operations touch"""
    out = []
    for cls, ns, inst in _reg_classes():
        mirror = optree.register_pytree_node.get(cls, namespace=ns) is not None
        custom = []
        for nil in (False, True):
            try:
                k = optree.tree_structure(inst, namespace=ns, none_is_leaf=nil).kind
                custom.append(k == optree.PyTreeKind.CUSTOM)
            except Exception as e:  # noqa: BLE001
                custom.append(type(e).__name__)
        out.append((cls.__name__, mirror, custom[0], custom[1]))
    return tuple(out)


def cleanup_registrations():
    for cls, ns, _ in _reg_classes():
        try:
            optree.unregister_pytree_node(cls, namespace=ns)
        except Exception:  # noqa: BLE001
            pass


def operations(ctx):
    """name -> (engine functions for the model, thunk(hook) -> encoded result, setup or None)
    Every thunk is ONE call of the public API (registrations are cleaned up by the caller afterwards)."""
    tree, spec, spec_b, leaves = ctx['tree'], ctx['spec'], ctx['spec_b'], ctx['leaves']

    def pred(hook):
        def p(x):
            hook('pred', x)
            return False
        return p

    def fn(hook):
        def f(x, *r):
            hook('fn', x)
            return x
        return f

    def outcome(f):
        try:
            f()
            return 'ok'
        except (ValueError, KeyError, TypeError) as e:
            return type(e).__name__

    def register_nt(hook):
        # registering a namedtuple class warns: the warnings machinery calls user code
        def show(*a, **k):
            hook('showwarning', None)
        with warnings.catch_warnings():
            warnings.simplefilter('always')
            old = warnings.showwarning
            warnings.showwarning = show
            try:
                return outcome(lambda: optree.register_pytree_node(NT, lambda x: (tuple(x), None), lambda md, ch: NT(*ch),
                                                                   namespace='c17nt'))
            finally:
                warnings.showwarning = old

    def register_other(hook):
        return outcome(lambda: optree.register_pytree_node(Other, lambda x: ((), None), lambda md, ch: Other(), namespace='c17o'))

    def register_hooked(hook):
        return outcome(lambda: optree.register_pytree_node(Hooked, lambda x: ((), None), lambda md, ch: Hooked(), namespace='c17h'))

    def shared_iter(hook):
        return [enc(x) for x in ctx['shared_iter']]
    L = 'src/registry.cpp:Lookup'
    R, U = 'src/registry.cpp:RegisterImpl', 'src/registry.cpp:UnregisterImpl'
    ops = {
        'flatten_pred': ([L], lambda hook: enc(optree.tree_flatten(tree, is_leaf=pred(hook), namespace=NS)), None),
        'flatten_custom': ([L], lambda hook: enc(optree.tree_flatten(tree, namespace=NS)), None),
        'flatten_with_path': ([L], lambda hook: enc(optree.tree_flatten_with_path(tree, namespace=NS)[1]), None),
        'map': ([L], lambda hook: enc(optree.tree_map(fn(hook), tree, namespace=NS)), None),
        'unflatten': ([], lambda hook: enc(optree.tree_unflatten(spec, leaves)), None),
        'iter': ([L], lambda hook: enc(list(optree.tree_iter(tree, is_leaf=pred(hook), namespace=NS))), None),
        'spec_eq': ([], lambda hook: repr((spec == spec_b, spec != spec_b, spec.is_prefix(spec_b))), None),
        'spec_hash': (['src/treespec/hashing.cpp:HashValue'], lambda hook: repr(hash(spec) == hash(spec_b)), None),
        'spec_hash_same': (['src/treespec/hashing.cpp:HashValue'], lambda hook: repr(hash(spec) == ctx['hash0']), None),
        'spec_repr': (['src/treespec/serialization.cpp:ToString'], lambda hook: repr(spec), None),
        'pickle': ([L], lambda hook: enc(__import__('pickle').loads(__import__('pickle').dumps(spec))), None),
        'paths_accessors': ([], lambda hook: repr((spec.paths(), len(spec.accessors()))), None),
        'register_nt': ([R], register_nt, None),
        'unregister_nt': ([U], lambda hook: outcome(lambda: optree.unregister_pytree_node(NT, namespace='c17nt')), None),
        'unregister_nt_registered': ([U], lambda hook: outcome(lambda: optree.unregister_pytree_node(NT, namespace='c17nt')),
                                     lambda: register_nt(lambda *a: None)),
        'register_other': ([R], register_other, None),
        'unregister_other_registered': ([U], lambda hook: outcome(lambda: optree.unregister_pytree_node(Other, namespace='c17o')),
                                        lambda: register_other(None)),
        # the error message of a failed (un)registration formats the class: the metaclass __repr__ is user code
        'register_dup_hooked': ([R], register_hooked, lambda: register_hooked(None)),
        'unregister_missing_hooked': ([U], lambda hook: outcome(lambda: optree.unregister_pytree_node(Hooked, namespace='c17h')),
                                      None),
        'unregister_hooked_registered': ([U], lambda hook: outcome(lambda: optree.unregister_pytree_node(Hooked, namespace='c17h')),
                                         lambda: register_hooked(None)),
        'flatten_nt_instance': ([L], lambda hook: repr([optree.tree_structure(NT(1, (2, 3)), namespace='c17nt', none_is_leaf=n).num_nodes
                                                        for n in (False, True)]) if False else
                                enc(optree.tree_leaves(NT(1, (2, 3)), namespace='c17nt')), None),
        'is_namedtuple_class': (['include/optree/pytypes.h:IsNamedTupleClass', 'include/optree/pytypes.h:IsStructSequenceClass'],
                                lambda hook: repr((optree.is_namedtuple_class(Hooked), optree.is_structseq_class(Hooked),
                                                   optree.is_namedtuple_class(NT))), None),
        'dict_order_read': (['include/optree/treespec.h:IsDictInsertionOrdered'],
                            lambda hook: repr(optree.is_dict_insertion_ordered(namespace=NS))
                            if hasattr(optree, 'is_dict_insertion_ordered') else 'n/a', None),
        'shared_iter': ([L], shared_iter, None),
        # the first classification of a fresh namedtuple class (interruptible inside the metaclass hook) against another
        # thread flattening an instance of the same class
        'classify_fresh_nt': (['include/optree/pytypes.h:IsNamedTupleClass'],
                              lambda hook: repr(optree.is_namedtuple_class(ctx['HNT'])) + ' ' +
                              enc(optree.tree_leaves((ctx['HNT'](1, 2), 3))), None),
        'leaves_fresh_nt': ([L, 'include/optree/pytypes.h:IsNamedTupleClass'],
                            lambda hook: enc(optree.tree_leaves((ctx['HNT'](1, 2), 3))) + ' ' +
                            repr(optree.tree_structure(ctx['HNT'](1, 2)).num_leaves), None),
    }
    return ops


A_OPS = ['flatten_pred', 'flatten_custom', 'flatten_with_path', 'map', 'unflatten', 'iter', 'spec_eq', 'spec_hash', 'spec_repr',
         'pickle', 'register_nt', 'register_dup_hooked', 'unregister_missing_hooked', 'is_namedtuple_class', 'shared_iter',
         'classify_fresh_nt']
B_OPS = ['flatten_custom', 'register_other', 'register_nt', 'unregister_nt', 'unregister_nt_registered',
         'unregister_other_registered', 'unregister_hooked_registered', 'flatten_nt_instance', 'spec_hash_same', 'spec_repr',
         'spec_eq', 'unflatten', 'map', 'is_namedtuple_class', 'dict_order_read', 'paths_accessors', 'shared_iter',
         'leaves_fresh_nt']


def fresh_hooked_nt():
    """a namedtuple class the engine has never seen, whose class-attribute lookups (`_fields`, `_make`, `_asdict`) run user
    code: its first classification can be interrupted"""
    base = collections.namedtuple('HB', ['x', 'y'])
    return HookMeta('HookedNT', (base,), {'__slots__': ()})


def _mk_ctx():
    ctx = context()
    ctx['hash0'] = hash(ctx['spec'])
    ctx['mk_iter'] = lambda: optree.tree_iter(     # noqa: E731
        ctx['tree'], is_leaf=lambda x: (universe.CALLBACK_HOOK('pred', x) if universe.CALLBACK_HOOK else None, False)[1],
        namespace=NS)
    ctx['shared_iter'] = ctx['mk_iter']()
    return ctx


def count_callbacks(name):
    """number of switch points of operation `name` when it runs alone"""
    def cell():
        ctx = _mk_ctx()
        op = operations(ctx)[name]
        if op[2] is not None:
            op[2]()
        n = [0]

        def hook(kind, obj=None):
            n[0] += 1
        universe.CALLBACK_HOOK = hook
        try:
            op[1](hook)
        finally:
            universe.CALLBACK_HOOK = None
        return n[0]
    status, text = in_child(cell, timeout=60)
    if status != 'ok':
        return 0
    return int(text.split(' ', 1)[1])


def run_pair(name_a, name_b, park_at, timeout=20):
    """park A inside its callback number `park_at`, run B meanwhile.  Returns (status, detail): 'completes' (with
    both results, the final registry views, and the same for the two sequential orders), 'deadlock', 'crash'"""
    def cell():
        ctx = _mk_ctx()
        ops = operations(ctx)
        nohook = lambda kind, obj=None: None     # noqa: E731

        def setup():
            cleanup_registrations()
            for n in (name_a, name_b):
                if ops[n][2] is not None:
                    ops[n][2]()
            ctx['shared_iter'] = ctx['mk_iter']()
            ctx['HNT'] = fresh_hooked_nt()      # unseen by the engine at the start of each of the three runs

        def sequential(first, second):
            setup()
            r1 = ops[first][1](nohook)
            r2 = ops[second][1](nohook)
            v = views()
            return (r1, r2, v) if first == name_a else (r2, r1, v)
        seq_ab = sequential(name_a, name_b)
        seq_ba = sequential(name_b, name_a) if name_a != name_b else seq_ab
        if name_a == name_b:
            seq_ba = (seq_ab[1], seq_ab[0], seq_ab[2])
        setup()
        a_ident = threading.get_ident()
        state = {'n': 0, 'thread': None}
        res_b = {}

        def hook(kind, obj=None):
            if threading.get_ident() != a_ident:
                return
            i = state['n']
            state['n'] += 1
            if i == park_at and state['thread'] is None:
                done = threading.Event()

                def run_b():
                    try:
                        res_b['r'] = ops[name_b][1](nohook)
                    except BaseException as e:   # noqa: BLE001
                        res_b['r'] = 'raised ' + type(e).__name__ + ': ' + str(e)[:120]
                    done.set()
                t = threading.Thread(target=run_b, daemon=True)
                state['thread'] = t
                t.start()
                done.wait(0.25)     # B may legitimately wait for a Python-level lock that A holds: let A go on
        universe.CALLBACK_HOOK = hook
        try:
            try:
                res_a = ops[name_a][1](hook)
            except BaseException as e:   # noqa: BLE001
                res_a = 'raised ' + type(e).__name__ + ': ' + str(e)[:120]
        finally:
            universe.CALLBACK_HOOK = None
        t = state['thread']
        if t is not None:
            t.join(5)
            if t.is_alive():
                return {'status': 'python-level-deadlock'}
        v = views()
        cleanup_registrations()
        return {'status': 'completes', 'parked': t is not None, 'run': (res_a, res_b.get('r'), v), 'seq_ab': seq_ab,
                'seq_ba': seq_ba}
    status, text = in_child(cell, timeout=timeout)
    if status == 'timeout':
        return 'deadlock', text
    if status != 'ok':
        return 'crash', status + ' ' + text[-400:]
    return 'completes', eval(text.split(' ', 1)[1])      # noqa: S307  (repr of a dict written by our own child)


def pair_line(req):
    """(c17pair (fnsA...) (fnsB...)) is answered from the named operations: `req` carries their names as
    the last element of each list -- see props/C17.py"""
    raise NotImplementedError
