"""The universe of Python objects shared by the implementation side and the Lean model.

Everything here mirrors lean/OptreeModel/Model/{Basic,Eval}.lean: leaf types, key objects, namedtuple
and struct-sequence classes, user classes with their flatten functions and quirks, the predicate
menu and the default-factory menu.  Objects are cached by uid so that a tree written as an
S-expression always denotes the *same* leaf objects (identity is what the properties talk about).
"""

from __future__ import annotations

import collections
import os
import time
from collections import OrderedDict, defaultdict, deque

from sexp import A, Atom

# ---------------------------------------------------------------------------------------------
# leaves


class Lf:
    __slots__ = ('uid', '__weakref__')

    def __init__(self, uid):
        self.uid = uid

    def __repr__(self):
        return f'Lf({self.uid})'


class MyList(list):
    pass


class MyDict(dict):
    pass


class MyTuple(tuple):
    pass


class MyODict(OrderedDict):
    pass


class MyDDict(defaultdict):
    pass


class MyDeque(deque):
    pass


def _mk_leaf(ty: int, uid: int):
    if ty == 0:
        return Lf(uid)
    if ty == 1:
        return int(str(10**6 + uid))
    if ty == 2:
        return ''.join(['s', str(uid)])
    if ty == 3:
        return MyList([uid])
    if ty == 4:
        return MyDict({'u': uid})
    if ty == 5:
        return MyTuple((uid,))
    if ty == 6:
        return MyODict({'u': uid})
    if ty == 7:
        return MyDDict(int, {'u': uid})
    if ty == 8:
        return MyDeque([uid])
    if ty == 9:
        return float(uid) + 0.5
    raise ValueError(f'unknown leaf type {ty}')


NUM_LEAF_TYPES = 10

# ---------------------------------------------------------------------------------------------
# key objects


class UserExc(Exception):
    def __init__(self, n):
        super().__init__(n)
        self.n = n


# C15: when set, every user-level callback of the universe (registered flatten / unflatten functions,
# key __eq__ / __hash__ / __lt__ / __repr__) reports its invocation here first (`hook(kind, obj)`; it may
# raise to inject a fault)
CALLBACK_HOOK = None


class KeyBase:
    __slots__ = ('rank', 'uid')

    def __init__(self, rank, uid):
        self.rank = rank
        self.uid = uid

    def __repr__(self):
        if CALLBACK_HOOK is not None:
            CALLBACK_HOOK('key-repr', self)
        return f'{type(self).__name__}({self.rank},{self.uid})'

    # equality "by identity", expressed through the uid so that it survives pickling
    def __eq__(self, other):
        if CALLBACK_HOOK is not None:
            CALLBACK_HOOK('key-eq', self)
        return type(other) is type(self) and other.uid == self.uid

    def __hash__(self):
        if CALLBACK_HOOK is not None:
            CALLBACK_HOOK('key-hash', self)
        return hash(('KeyBase', self.uid))

    def __reduce__(self):
        return (type(self), (self.rank, self.uid))


class FlakyKey:
    """hashable key whose __hash__ can be made to raise (C06 / C15 fault scenarios)"""
    broken = False

    def __init__(self, n):
        self.n = n

    def __hash__(self):
        if FlakyKey.broken:
            raise UserExc(77)
        return hash(('FlakyKey', self.n))

    def __eq__(self, other):
        return type(other) is FlakyKey and other.n == self.n

    def __lt__(self, other):
        return self.n < other.n

    def __repr__(self):
        return f'FlakyKey({self.n})'


_KEY_CLASSES: dict[tuple[str, bool], type] = {}


def key_class(tag: str, orderable: bool) -> type:
    k = (tag, orderable)
    cls = _KEY_CLASSES.get(k)
    if cls is None:
        # tag = module + '.' + qualified name; the qualified name may itself be dotted (a class defined
        # inside another class: `__qualname__` != `__name__`)
        module, _, qual = tag.partition('.')
        name = qual.rpartition('.')[2]
        ns: dict = {'__slots__': (), '__module__': module, '__qualname__': qual}
        if orderable:
            def __lt__(self, other):
                if CALLBACK_HOOK is not None:
                    CALLBACK_HOOK('key-lt', self)
                if type(other) is type(self):
                    return self.rank < other.rank
                return NotImplemented
            ns['__lt__'] = __lt__
        cls = type(name, (KeyBase,), ns)
        cls.__module__ = module
        cls.__qualname__ = qual
        _KEY_CLASSES[k] = cls
        import sys
        import types
        m = sys.modules.setdefault(module, types.ModuleType(module))
        holder = m
        for part in qual.split('.')[:-1]:          # make `module.Outer.Inner` resolvable (pickle by reference)
            if not hasattr(holder, part):
                outer = type(part, (), {'__module__': module})
                setattr(holder, part, outer)
            holder = getattr(holder, part)
        setattr(holder, name, cls)
    return cls


for _tag, _ord in (('vk.KO', True), ('vk.KP', True), ('vk.KU', False), ('vk.KV', False), ('vk.Alpha.KZ', False),
                   ('vk.KB', False)):
    key_class(_tag, _ord)

# ---------------------------------------------------------------------------------------------
# namedtuple / struct-sequence classes

Point = collections.namedtuple('Point', ['x', 'y'])
Triple = collections.namedtuple('Triple', ['a', 'b', 'c'])
Empty = collections.namedtuple('Empty', [])
Single = collections.namedtuple('Single', ['v'])


class PointSub(Point):
    __slots__ = ()


NT_CLASSES = [Point, Triple, Empty, Single, PointSub]
NT_ARITY = [2, 3, 0, 1, 2]
SS_CLASSES = [os.terminal_size, os.times_result, time.struct_time, os.stat_result]
SS_ARITY = [2, 5, 9, 10]

# ---------------------------------------------------------------------------------------------
# user classes


class UBase:
    cls_id = -1

    def __init__(self, md, children, quirk='ok'):
        self.md = md
        self.children = list(children)
        self.quirk = quirk

    def _index(self, entry):
        if isinstance(entry, str) and entry.startswith('c'):
            return int(entry[1:])
        if isinstance(entry, int):
            return entry - 10 if entry >= 10 else entry
        raise KeyError(entry)

    def __getitem__(self, entry):
        return self.children[self._index(entry)]

    def __getattr__(self, name):
        if name.startswith('c') and name[1:].isdigit():
            return self.children[int(name[1:])]
        raise AttributeError(name)

    def __repr__(self):
        return f'{type(self).__name__}({self.md!r}, {self.children!r}, {self.quirk!r})'


NUM_USER_CLASSES = 8
USER_CLASSES = [type(f'U{i}', (UBase,), {'cls_id': i, '__module__': __name__})
                for i in range(NUM_USER_CLASSES)]
for _c in USER_CLASSES:
    globals()[_c.__name__] = _c


def named_entries(n):
    return tuple(f'c{i}' for i in range(n))


def shifted_entries(n):
    return tuple(10 + i for i in range(n))


def make_flatten(cls_kind: int, mode: str):
    """the flatten function registered for a class, mirroring `customOutOf` of the model"""

    def entries_for(n):
        if mode == 'named':
            return named_entries(n)
        if mode == 'shifted':
            return shifted_entries(n)
        return None

    def forced(n):
        return named_entries(n) if mode == 'named' else shifted_entries(n)

    def flatten(obj):
        if CALLBACK_HOOK is not None:
            CALLBACK_HOOK('flatten', obj)
        if cls_kind == 0:
            children, md, quirk = tuple(obj.children), obj.md, obj.quirk
        else:
            children, md, quirk = tuple(obj), None, 'ok'
        n = len(children)
        if mode == 'two':
            base = (children, md)
        else:
            base = (children, md, entries_for(n))
        if quirk == 'ok':
            return base
        if quirk == 'len1':
            return (children,)
        if quirk == 'len4':
            return (children, md, entries_for(n), None)
        if quirk == 'ent-':
            return (children, md, forced(max(n - 1, 0)))
        if quirk == 'ent+':
            return (children, md, forced(n + 1))
        if quirk == 'chNI':
            return (5, *base[1:])
        if quirk == 'enNI':
            return (children, md, 5)
        raise ValueError(quirk)

    return flatten


def make_unflatten(cls_kind: int, cls):
    def unflatten(md, children):
        if CALLBACK_HOOK is not None:
            CALLBACK_HOOK('unflatten', cls)
        if cls_kind == 0:
            return cls(md, list(children), 'ok')
        if cls_kind == 1:
            return cls(*children)
        return cls(tuple(children))
    return unflatten


def class_of(cls_kind: int, idx: int):
    return (USER_CLASSES, NT_CLASSES, SS_CLASSES)[cls_kind][idx]


# ---------------------------------------------------------------------------------------------
# default factories and predicates


class _Fac3:
    def __call__(self):
        return 3

    def __repr__(self):
        return 'fac3'

    def __reduce__(self):
        return 'fac3'          # pickled by reference to the module-level singleton


fac3 = _Fac3()
FACTORIES = [int, list, dict, fac3]


def _pred7(x):
    if isinstance(x, UBase) and type(x.md) is int and x.md == 7:
        raise UserExc(1)
    return type(x) is deque


PREDICATES = [
    None,
    lambda x: type(x) is tuple,
    lambda x: type(x) in (dict, OrderedDict, defaultdict) and len(x) >= 2,
    lambda x: x is None,
    lambda x: isinstance(x, UBase),
    lambda x: type(x) is Lf and x.uid % 2 == 0,
    lambda x: (type(x) is list and len(x) == 0) or type(x) in NT_CLASSES or type(x) in SS_CLASSES,
    _pred7,
]


# ---------------------------------------------------------------------------------------------
# object cache and conversions


class Universe:
    """uid-indexed caches; conversions S-expression <-> Python objects"""

    def __init__(self):
        self.leaf_by_uid: dict[tuple[int, int], object] = {}
        self.leaf_by_id: dict[int, tuple[int, int]] = {}
        self.key_by_uid: dict[int, KeyBase] = {}
        self.extra_by_id: dict[int, object] = {}   # objects created by mapped functions etc.

    # -- keys
    def key(self, s):
        tag = s[0]
        if tag == 'i':
            return int(s[1])
        if tag == 's':
            return s[1]
        if tag == 't':
            return tuple(int(x) for x in s[1:])
        if tag == 'o':
            _, ktag, orderable, rank, uid = s
            uid = int(uid)
            obj = self.key_by_uid.get(uid)
            if obj is None:
                obj = key_class(ktag, orderable == '1')(int(rank), uid)
                self.key_by_uid[uid] = obj
            return obj
        raise ValueError(f'bad key {s!r}')

    def optkey(self, s):
        if isinstance(s, Atom) and s == 'N':
            return None
        return self.key(s)

    def enc_key(self, k):
        if type(k) is int:
            return [A('i'), k]
        if type(k) is str:
            return [A('s'), k]
        if type(k) is tuple and all(type(x) is int for x in k):
            return [A('t'), *k]
        if isinstance(k, KeyBase):
            cls = type(k)
            return [A('o'), f'{cls.__module__}.{cls.__qualname__}', hasattr(cls, '__lt__') and '__lt__' in cls.__dict__,
                    k.rank, k.uid]
        return [A('X'), repr(k)]

    def enc_optkey(self, k):
        return A('N') if k is None else self.enc_key(k)

    def enc_keys(self, ks):
        return [self.enc_key(k) for k in ks]

    # -- construction histories: the same final container reached through insertions, deletions,
    #    re-insertions, OrderedDict.move_to_end, defaultdict auto-insertion, deque rotation at maxlen
    history = True

    def build_dict(self, d, items):
        if not self.history or not items:
            d.update(items)
            return d
        mode = len(items) % 3
        if mode == 0:
            # junk keys first, deleted later (leaves dummy slots in the hash table)
            for i in range(3):
                d[('junk', i)] = None
            for k, v in items:
                d[k] = v
            for i in range(3):
                del d[('junk', i)]
        elif mode == 1:
            # every key inserted early with a placeholder, then deleted and re-inserted in order
            for k, _ in reversed(items):
                d[k] = None
            for k, v in items:
                del d[k]
                d[k] = v
        else:
            if isinstance(d, defaultdict) and d.default_factory is not None:
                for k, v in items:
                    d[k]            # auto-insertion through __missing__
                    d[k] = v
            else:
                d.update(items)
        return d

    def build_odict(self, items):
        if not self.history or len(items) < 2:
            return OrderedDict(items)
        od = OrderedDict()
        mode = len(items) % 2
        if mode == 0:
            for k, v in reversed(items):
                od[k] = v
            for k, _ in items:
                od.move_to_end(k)               # final order = items order
        else:
            for k, v in items[1:] + items[:1]:
                od[k] = v
            od.move_to_end(items[0][0], last=False)
        return od

    def build_deque(self, xs, maxlen):
        d = deque(xs, maxlen=maxlen)
        if not self.history or not xs:
            return d
        if maxlen is not None and len(d) == maxlen:
            d.appendleft(d[-1])         # at maxlen: evicts the right end ...
            d.rotate(-1)                # ... and rotating back restores the order
        else:
            d.rotate(1)
            d.rotate(-1)
        assert len(d) == len(xs) and all(a is b for a, b in zip(d, xs))
        return d

    # -- trees
    def leaf(self, ty: int, uid: int):
        obj = self.leaf_by_uid.get((ty, uid))
        if obj is None:
            obj = _mk_leaf(ty, uid)
            self.leaf_by_uid[(ty, uid)] = obj
            self.leaf_by_id[id(obj)] = (ty, uid)
        return obj

    @staticmethod
    def optnat(s):
        return None if s == 'N' else int(s)

    def obj(self, s):
        if isinstance(s, Atom):
            if s == 'N':
                return None
            raise ValueError(f'bad tree atom {s!r}')
        tag = s[0]
        if tag == 'L':
            return self.leaf(int(s[1]), int(s[2]))
        if tag == 'T':
            return tuple([self.obj(x) for x in s[1:]])
        if tag == 'l':
            return [self.obj(x) for x in s[1:]]
        if tag == 'D':
            items = [(self.key(k), self.obj(v)) for k, v in s[1:]]
            return self.build_dict(dict(), items)
        if tag == 'O':
            items = [(self.key(k), self.obj(v)) for k, v in s[1:]]
            return self.build_odict(items)
        if tag == 'DD':
            f = self.optnat(s[1])
            items = [(self.key(k), self.obj(v)) for k, v in s[2:]]
            return self.build_dict(defaultdict(None if f is None else FACTORIES[f]), items)
        if tag == 'Q':
            return self.build_deque([self.obj(x) for x in s[2:]], self.optnat(s[1]))
        if tag == 'NT':
            return NT_CLASSES[int(s[1])](*[self.obj(x) for x in s[2:]])
        if tag == 'SS':
            cls = SS_CLASSES[int(s[1])]
            vis = [self.obj(x) for x in s[2:]]
            # fill the invisible (named-only) fields with values of their own, as os.stat() does
            extra = [float(1000 + i) + 0.25 for i in range(cls.n_fields - cls.n_sequence_fields)] \
                if cls is os.stat_result else []
            return cls(tuple(vis + extra))
        if tag == 'U':
            return USER_CLASSES[int(s[1])](self.optkey(s[2]), [self.obj(x) for x in s[4:]], str(s[3]))
        raise ValueError(f'bad tree {s!r}')

    def enc_optnat(self, n):
        return A('N') if n is None else n

    def enc_obj(self, x):
        ident = self.leaf_by_id.get(id(x))
        if ident is not None and self.leaf_by_uid.get(ident) is x:
            return [A('L'), ident[0], ident[1]]
        if x is None:
            return A('N')
        t = type(x)
        if t is tuple:
            return [A('T'), *[self.enc_obj(c) for c in x]]
        if t is list:
            return [A('l'), *[self.enc_obj(c) for c in x]]
        if t is dict:
            return [A('D'), *[[self.enc_key(k), self.enc_obj(v)] for k, v in x.items()]]
        if t is OrderedDict:
            return [A('O'), *[[self.enc_key(k), self.enc_obj(v)] for k, v in x.items()]]
        if t is defaultdict:
            f = x.default_factory
            fi = A('N') if f is None else (FACTORIES.index(f) if f in FACTORIES else A('X'))
            return [A('DD'), fi, *[[self.enc_key(k), self.enc_obj(v)] for k, v in x.items()]]
        if t is deque:
            return [A('Q'), self.enc_optnat(x.maxlen), *[self.enc_obj(c) for c in x]]
        if t in NT_CLASSES:
            return [A('NT'), NT_CLASSES.index(t), *[self.enc_obj(c) for c in x]]
        if t in SS_CLASSES:
            return [A('SS'), SS_CLASSES.index(t), *[self.enc_obj(c) for c in x]]
        if isinstance(x, UBase) and t in USER_CLASSES:
            return [A('U'), t.cls_id, self.enc_optkey(x.md), A(x.quirk),
                    *[self.enc_obj(c) for c in x.children]]
        extra = self.extra_by_id.get(id(x))
        if extra is not None:
            return extra
        return [A('X'), repr(x)[:80]]

    # -- specs
    def enc_type(self, t):
        if t is None:
            return A('-')
        for ck, classes in enumerate((USER_CLASSES, NT_CLASSES, SS_CLASSES)):
            if t in classes:
                return [ck, classes.index(t)]
        return [A('X'), repr(t)]

    def enc_node(self, node):
        kind, arity, data, entries, custom, nl, nn, okeys = node
        if kind in (5, 7):
            d = [A('keys'), self.enc_keys(data)]
        elif kind == 8:
            f = data[0]
            fi = A('N') if f is None else (FACTORIES.index(f) if f in FACTORIES else A('X'))
            d = [A('ddict'), fi, self.enc_keys(data[1])]
        elif kind in (6, 10):
            classes = NT_CLASSES if kind == 6 else SS_CLASSES
            d = [A('cls'), classes.index(data) if data in classes else A('X')]
        elif kind == 9:
            d = [A('maxlen'), self.enc_optnat(data)]
        elif kind == 0:
            d = [A('md'), self.enc_optkey(data)]
        else:
            d = A('-') if data is None else [A('X'), repr(data)]
        return [kind, arity, d,
                A('N') if entries is None else self.enc_keys(entries),
                self.enc_type(custom), nl, nn,
                A('N') if okeys is None else self.enc_keys(okeys)]

    def enc_spec(self, spec):
        nodes, nil, ns = spec.__getstate__()
        return [A('spec'), bool(nil), ns, [self.enc_node(n) for n in nodes]]
