"""C14: inspection / mutation histories against a real treespec."""

from __future__ import annotations

import copy
from collections import OrderedDict, defaultdict, deque

import optree

from universe import Lf, NT_CLASSES

METHODS = ['entries', 'children', 'child', 'one_level', 'paths', 'accessors', 'flatten_leaves']


class _Node:
    """a custom node with entries (registered in namespace 'c14')"""

    def __init__(self, md, kids):
        self.md = md
        self.kids = list(kids)


_registered = False


def ensure_registered():
    global _registered
    if not _registered:
        optree.register_pytree_node(
            _Node, lambda n: (tuple(n.kids), n.md, tuple(f'k{i}' for i in range(len(n.kids)))),
            lambda md, kids: _Node(md, kids), namespace='c14')
        _registered = True


def subject(name: str):
    ensure_registered()
    a, b, c, d = Lf(1), Lf(2), Lf(3), Lf(4)
    inner = {'y': a, 'x': (b, c)}
    trees = {
        'dict': {'q': inner, 'p': [d]},
        'odict': OrderedDict([('q', inner), ('p', [d])]),
        'ddict': defaultdict(list, {'q': inner, 'p': [d]}),
        'custom': _Node('md', [inner, [d]]),
        'list': [inner, [d], None],
        'ntuple': NT_CLASSES[0](inner, [d]),
        'deque': deque([inner, [d]], maxlen=5),
    }
    return trees[name]


def snapshot(spec, tree):
    st = spec.__getstate__()
    leaves = optree.tree_leaves(tree, namespace='c14')
    return (repr(spec), repr(st), repr(spec.entries()), repr(spec.paths()), repr(spec.accessors()),
            repr(spec.children()), repr(spec.one_level()), spec.num_leaves, spec.num_nodes, spec.num_children,
            tuple(id(x) for x in leaves), hash(spec), spec == copy.copy(spec))


def call(spec, tree, m: int):
    name = METHODS[m]
    if name == 'entries':
        return spec.entries()
    if name == 'children':
        return spec.children()
    if name == 'child':
        return spec.child(0)
    if name == 'one_level':
        return spec.one_level()
    if name == 'paths':
        return spec.paths()
    if name == 'accessors':
        return spec.accessors()
    return optree.tree_flatten(tree, namespace='c14')[0]


def mutate(obj, kind, x):
    if not isinstance(obj, list):
        return            # tuples and treespecs offer no mutation
    if kind == 'append':
        obj.append(x)
    elif kind == 'clear':
        obj.clear()
    elif kind == 'set0':
        if obj:
            obj[0] = x
    elif kind == 'reverse':
        obj.reverse()
    elif kind == 'pop':
        if obj:
            obj.pop()


def history(req):
    _, subj, *ops = req
    tree = subject(str(subj))
    spec = optree.tree_structure(tree, namespace='c14')
    before = snapshot(spec, tree)
    handouts = []
    for o in ops:
        if o[0] == 'insp':
            m = int(o[1])
            if m < len(METHODS):
                handouts.append(call(spec, tree, m))
        else:
            i = int(o[1])
            if i < len(handouts):
                mutate(handouts[i], str(o[2]), int(o[3]) if len(o) > 3 else None)
    return 'same' if snapshot(spec, tree) == before else 'changed'
