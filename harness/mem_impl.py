"""C16: re-entrant mutation, deep treespecs, argument confusion against the real implementation."""

from __future__ import annotations

import os
import pickle
import signal
import tempfile
from collections import OrderedDict, defaultdict, deque

import optree

from universe import Lf


class Box:            # custom node whose flatten function hands out its own children list
    def __init__(self, kids):
        self.kids = kids


class Trigger:        # leafless custom node whose flatten function runs an action
    action = None


class Loop:           # custom node whose flatten function never terminates: it is its own child
    pass


def loop(req):
    """(c16loop kind n at adv): flatten a container whose child `at` triggers a mutation when visited"""
    _, kind, n, at, adv = req
    kind, n, at = str(kind), int(n), int(at)
    items = [Lf(10**6 + i) for i in range(n)]
    if kind == 'list':
        c = list(items)
    elif kind == 'deque':
        c = deque(items)
    elif kind == 'tuple':
        c = tuple(items)
    else:
        raise ValueError(kind)
    target = items[at] if at < n else None

    def mutate():
        if kind == 'tuple' or adv == 'keep':
            return
        if adv == 'clear':
            c.clear()
        elif adv[0] == 'shrink':
            m = int(adv[1])
            while len(c) > m:
                c.pop()
        elif adv[0] == 'grow':
            for j in range(int(adv[1])):
                c.append(Lf(2 * 10**6 + j))

    def pred(x):
        if x is target:
            mutate()
        return False
    try:
        optree.tree_flatten(c, is_leaf=pred)
    except Exception as e:  # noqa: BLE001
        return ['raised', type(e).__name__]
    return 'done'


CHAIN_KINDS = ['list', 'tuple', 'dict', 'odict', 'ddict', 'deque', 'namedtuple', 'custom', 'mixed']


def chain_spec(depth, kind='list'):
    """treespec of `depth` nested one-child containers of `kind` around one leaf (deeper than the flatten
    limit: composed from chains flatten accepts)"""
    import collections
    import universe

    def wrap(t, k):
        if k == 'list':
            return [t]
        if k == 'tuple':
            return (t,)
        if k == 'dict':
            return {'k': t}
        if k == 'odict':
            return OrderedDict(k=t)
        if k == 'ddict':
            return defaultdict(int, k=t)
        if k == 'deque':
            return deque([t])
        if k == 'namedtuple':
            return universe.Single(t)
        if k == 'custom':
            return Box([t])
        raise ValueError(k)
    cycle = ['dict', 'list', 'ddict', 'custom', 'odict', 'tuple', 'deque', 'namedtuple']

    def chain(d):
        t = 0
        for i in range(d):
            t = wrap(t, cycle[i % len(cycle)] if kind == 'mixed' else kind)
        return optree.tree_structure(t, namespace='c16')
    lim = optree.MAX_RECURSION_DEPTH
    if depth <= lim:
        return chain(depth)
    spec = chain(lim)
    rest = depth - lim
    while rest > 0:
        step = min(rest, lim)
        spec = spec.compose(chain(step))
        rest -= step
    return spec


WALKERS = {
    'treespec.cpp:PathsImpl': lambda s: s.paths(),
    'treespec.cpp:AccessorsImpl': lambda s: s.accessors(),
    'treespec.cpp:BroadcastToCommonSuffixImpl': lambda s: s.broadcast_to_common_suffix(s),
}


def walk(req):
    _, name, depth = req
    spec = chain_spec(int(depth))
    try:
        WALKERS[str(name)](spec)
    except Exception as e:  # noqa: BLE001
        return ['raised', type(e).__name__]
    return 'done'


# ---------------------------------------------------------------------------------------------
# cells that may crash the interpreter run in a forked child

def in_child(fn, timeout=120):
    """run fn() in a forked child; returns (status, text): status 'ok' | 'exc' | 'crash:<signal or code>' | 'timeout'"""
    r, w = os.pipe()
    errf = tempfile.TemporaryFile()
    pid = os.fork()
    if pid == 0:
        try:
            os.close(r)
            os.dup2(errf.fileno(), 2)
            signal.alarm(timeout)
            try:
                out = fn()
                msg = 'ok ' + repr(out)[:60000]
            except BaseException as e:  # noqa: BLE001
                msg = 'exc ' + type(e).__name__ + ': ' + str(e)[:200]
            os.write(w, msg.encode('utf-8', 'replace'))
        finally:
            os._exit(0)
    os.close(w)
    chunks = []
    while True:
        b = os.read(r, 65536)
        if not b:
            break
        chunks.append(b)
    os.close(r)
    _, status = os.waitpid(pid, 0)
    text = b''.join(chunks).decode('utf-8', 'replace')
    errf.seek(0)
    err = errf.read().decode('utf-8', 'replace')[-1500:]
    errf.close()
    if os.WIFSIGNALED(status):
        sig = os.WTERMSIG(status)
        if sig == signal.SIGALRM:
            return 'timeout', err
        return f'crash:signal {sig}', err
    code = os.WEXITSTATUS(status)
    if code != 0 or not text:
        return f'crash:exit {code}', err
    return text.split(' ', 1)[0], text
