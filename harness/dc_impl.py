"""C19: optree dataclasses / partial against the real implementation."""

from __future__ import annotations

import dataclasses as std
import itertools

import optree
import optree.dataclasses as odc

from sexp import A

_counter = itertools.count()


def make_fields(fields, module):
    """[(name, type, field)] for make_dataclass; non-init fields get a default"""
    out = []
    for name, init, pytree in fields:
        kw = {'init': init}
        if not init:
            kw['default'] = 0
        if module is odc:
            kw['pytree_node'] = pytree
        out.append((name, int, module.field(**kw)))
    # fields with defaults must come last for init fields: give every init field after the first
    # defaulted one a default too (mirrors what a user would have to write)
    return out


def parse_req(req):
    """(dcpart isClass already nsEmpty (opts via slots frozen kwonly order) (name init pytree kwonly dflt inherited)*)"""
    _, is_class, already, ns_empty, opts, *fields = req
    _, via, slots, frozen, kwonly, order = opts
    fields = [(str(n), i == '1', p == '1', k == '1', int(d), inh == '1') for n, i, p, k, d, inh in fields]
    o = {'via': int(via), 'slots': slots == '1', 'frozen': frozen == '1', 'kw_only': kwonly == '1', 'order': order == '1'}
    return is_class == '1', already == '1', ns_empty == '1', o, fields


def field_kwargs(init, pytree, kwonly, dflt, j):
    kw = {'init': init, 'pytree_node': pytree}
    if kwonly:
        kw['kw_only'] = True
    if dflt == 1:
        kw['default'] = 1000 + j
    elif dflt == 2:
        kw['default_factory'] = (lambda j=j: 2000 + j)
    return kw


def std_field(pytree_node=None, **kw):
    return std.field(**kw)


def build_class(req, module='odc', extra=None):
    """the class the request describes, through the decorator or through make_dataclass; module='std' builds the class
    `dataclasses` itself would produce from the same declaration (the reference of 'otherwise the class
    dataclasses.dataclass would produce')"""
    is_class, already, ns_empty, o, fields = parse_req(req)
    ff = odc.field if module == 'odc' else std_field
    extra = extra or {}
    n = next(_counter)
    ns = '' if ns_empty else f'dcns{n}'
    if not is_class:
        odc.dataclass(5, namespace=ns or 'x')
    dc_kwargs = {k: o[k] for k in ('slots', 'frozen', 'kw_only', 'order') if o[k]}
    inherited = [(j, f) for j, f in enumerate(fields) if f[5]]
    own = [(j, f) for j, f in enumerate(fields) if not f[5]]
    bases = ()
    if inherited:
        base_ns = {'__annotations__': {f[0]: int for _, f in inherited}}
        for j, (name, init, pytree, kwonly, dflt, _) in inherited:
            base_ns[name] = ff(**field_kwargs(init, pytree, kwonly, dflt, j))
        # the base is a plain stdlib dataclass (its fields are inherited by the optree dataclass)
        bases = (std.dataclass(type(f'Base{n}', (), base_ns), **{k: v for k, v in dc_kwargs.items() if k in ('frozen', 'kw_only')}),)
    if module == 'std':
        if o['via'] == 1:
            spec = [(name, int, ff(**field_kwargs(init, pytree, kwonly, dflt, j))) for j, (name, init, pytree, kwonly, dflt, _) in own]
            return std.make_dataclass(f'DC{n}', spec, bases=bases, namespace=dict(extra), **dc_kwargs), None
        ns_dict = {'__annotations__': {f[0]: int for _, f in own}, **extra}
        for j, (name, init, pytree, kwonly, dflt, _) in own:
            ns_dict[name] = ff(**field_kwargs(init, pytree, kwonly, dflt, j))
        return std.dataclass(type(f'DC{n}', bases, ns_dict), **dc_kwargs), None
    if o['via'] == 1:
        spec = [(name, int, ff(**field_kwargs(init, pytree, kwonly, dflt, j))) for j, (name, init, pytree, kwonly, dflt, _) in own]
        if extra:
            dc_kwargs = dict(dc_kwargs, ns=dict(extra))
        if already:
            pre = odc.make_dataclass(f'DC{n}', spec, bases=bases, namespace=f'dcpre{n}', **dc_kwargs)
            return odc.dataclass(pre, namespace=ns), ns
        return odc.make_dataclass(f'DC{n}', spec, bases=bases, namespace=ns, **dc_kwargs), ns
    ns_dict = {'__annotations__': {f[0]: int for _, f in own}, **extra}
    for j, (name, init, pytree, kwonly, dflt, _) in own:
        ns_dict[name] = ff(**field_kwargs(init, pytree, kwonly, dflt, j))
    cls = type(f'DC{n}', bases, ns_dict)
    if already:
        cls = odc.dataclass(cls, namespace=f'dcpre{n}')
    return odc.dataclass(cls, namespace=ns, **dc_kwargs), ns


def partition(req):
    cls, ns = build_class(req)
    children, metadata = getattr(cls, '__optree_dataclass_fields__')
    return [[str(k) for k in children], [str(k) for k in metadata]], cls, ns
