"""C19: optree dataclasses / partial against the real implementation."""

from __future__ import annotations

import dataclasses as std
import itertools

import optree
import optree.dataclasses as odc

from sexp import A

_counter = itertools.count()


def make_fields(fields, module):
    """[(name, type, field)] for make_dataclass; non-init fields get a default"""
    out = []
    for name, init, pytree in fields:
        kw = {'init': init}
        if not init:
            kw['default'] = 0
        if module is odc:
            kw['pytree_node'] = pytree
        out.append((name, int, module.field(**kw)))
    # fields with defaults must come last for init fields: give every init field after the first
    # defaulted one a default too (mirrors what a user would have to write)
    return out


def partition(req):
    _, is_class, already, ns_empty, *fields = req
    fields = [(str(n), i == '1', p == '1') for n, i, p in fields]
    n = next(_counter)
    ns = '' if ns_empty == '1' else f'dcns{n}'
    if is_class == '0':
        odc.dataclass(5, namespace=ns or 'x')
    seen_default = False
    spec = []
    for name, init, pytree in fields:
        kw = {'init': init, 'pytree_node': pytree}
        if not init or seen_default:
            kw['default'] = 0
            seen_default = seen_default or init
        spec.append((name, int, kw))
    # non-init fields carry defaults, so order them last among positional parameters by using kw_only
    ns_dict = {'__annotations__': {name: int for name, _, _ in spec}}
    for name, _, kw in spec:
        ns_dict[name] = odc.field(kw_only=True, **kw) if kw.get('init') else odc.field(**kw)
    cls = type(f'DC{n}', (), ns_dict)
    if already == '1':
        cls = odc.dataclass(cls, namespace=f'dcpre{n}')
    cls = odc.dataclass(cls, namespace=ns)
    children, metadata = getattr(cls, '__optree_dataclass_fields__')
    return [[str(k) for k in children], [str(k) for k in metadata]], cls, ns
