"""Registry histories against the real optree (C12).  Each history runs in a fresh class universe;
registrations are identified by a path-entry class created for the call (rid = index of the call)."""

from __future__ import annotations

import collections
import os
import warnings

import optree
from optree.registry import __GLOBAL_NAMESPACE as GLOBAL_NS  # type: ignore[attr-defined]

from sexp import A, Atom
from universe import UserExc

OBS_CLASSES = [0, 1, 2, 3, 8]
OBS_NS = ['', 'a', 'b']


def make_universe():
    class P:
        def __init__(self, x):
            self.x = x

        def tree_flatten(self):
            return (self.x,), None

        @classmethod
        def tree_unflatten(cls, md, children):
            return cls(*children)

        def __getitem__(self, i):
            return self.x

    class S(P):
        pass

    NTc = collections.namedtuple('NTc', ['v'])

    class Q:
        def __init__(self, x):
            self.x = x

        def __getitem__(self, i):
            return self.x

    classes = {0: P, 1: S, 2: NTc, 3: os.terminal_size, 4: list, 5: dict, 6: type(None), 7: 5, 8: Q}
    instances = {0: P(1), 1: S(1), 2: NTc(1), 3: os.terminal_size((1, 2)), 8: Q(1)}
    return classes, instances


def ns_of(x):
    if isinstance(x, Atom):
        if x == 'G':
            return GLOBAL_NS
        if x == 'E':
            return ''
    return str(x)


def run(warn_err: bool, ops):
    classes, instances = make_universe()
    rid_of_entry: dict[type, int] = {}
    registered: list[tuple[object, object]] = []
    out = []

    def flatten_for(cls):
        if cls is classes[2] or cls is classes[3]:
            return lambda o: (tuple(o), None)
        return lambda o: ((o.x,), None)

    def unflatten_for(cls):
        if cls is classes[2]:
            return lambda md, ch: cls(*ch)
        if cls is classes[3]:
            return lambda md, ch: cls(tuple(ch))
        return lambda md, ch: cls(*ch)

    def observe_engine(c, ns, nil):
        obj = instances[c]
        spec = optree.tree_structure(obj, none_is_leaf=nil, namespace=ns)
        kind = int(spec.kind)
        if kind == 0:
            acc = spec.accessors()
            ent = type(acc[0][0])
            return [A('c'), rid_of_entry.get(ent, -1)]
        return A({1: 'leaf', 6: 'nt', 10: 'ss'}.get(kind, 'b'))

    def observe_get(c, ns):
        h = optree.register_pytree_node.get(classes[c], namespace=ns)
        if h is None:
            return A('leaf')
        k = int(h.kind)
        if k == 0:
            return [A('c'), rid_of_entry.get(h.path_entry_type, -1)]
        return A({6: 'nt', 10: 'ss'}.get(k, 'b'))

    def observe_getall(c, ns):
        d = optree.register_pytree_node.get(namespace=ns)
        h = d.get(classes[c])
        if h is None or int(h.kind) != 0:
            return A('-')
        return [A('c'), rid_of_entry.get(h.path_entry_type, -1)]

    def observe():
        rows = []
        for c in OBS_CLASSES:
            for ns in OBS_NS:
                rows.append([observe_engine(c, ns, False), observe_engine(c, ns, True), observe_get(c, ns),
                             observe_getall(c, ns)])
        return rows

    try:
        for i, op in enumerate(ops):
            kind = op[0]
            if kind == 'warn':               # the warnings filter changes between two calls of one history
                warn_err = op[1] == '1'
                out.append([A('ok'), observe()])
                continue
            cls = classes[int(op[1])]
            ns = ns_of(op[2])
            entry = type(f'Entry{i}', (optree.GetItemEntry,), {})
            rid_of_entry[entry] = i
            res = A('ok')
            with warnings.catch_warnings():
                warnings.simplefilter('error' if warn_err else 'ignore')
                try:
                    if kind == 'reg':
                        bad = op[3] == '1'
                        optree.register_pytree_node(cls, flatten_for(cls), unflatten_for(cls),
                                                    path_entry_type=(int if bad else entry), namespace=ns)
                        registered.append((cls, ns))
                    elif kind == 'regc':
                        optree.register_pytree_node_class(cls, path_entry_type=entry, namespace=ns)
                        registered.append((cls, ns))
                    elif kind == 'unreg':
                        optree.unregister_pytree_node(cls, namespace=ns)
                        if (cls, ns) in registered:
                            registered.remove((cls, ns))
                    else:
                        raise ValueError(kind)
                except Exception as e:  # noqa: BLE001
                    res = A(type(e).__name__)
            out.append([res, observe()])
    finally:
        # leave the process-wide registry clean: remove everything the engine still knows about
        for c in (0, 1, 2, 3, 8):
            for ns in (GLOBAL_NS, 'a', 'b'):
                for _ in range(2):
                    try:
                        optree.unregister_pytree_node(classes[c], namespace=ns)
                    except Exception:  # noqa: BLE001
                        try:
                            optree._C.unregister_node(classes[c], '' if ns is GLOBAL_NS else ns)
                        except Exception:  # noqa: BLE001
                            pass
    return out
