"""T-hash: which fields `PyTreeSpec::HashValueImpl` feeds to HashCombine, and which fields
`PyTreeSpec::EqualTo` compares.  Regenerates lean/OptreeModel/Generated/Hash.lean.

Comment- and whitespace-insensitive; anything not recognised is emitted as `?<text>` so that the
consuming obligation (`hashSpecFields_ok` / `hashNodeFields_ok` in Properties/C06.lean) fails.
"""

from __future__ import annotations

import re
from pathlib import Path


def strip_comments(src: str) -> str:
    src = re.sub(r'/\*.*?\*/', '', src, flags=re.S)
    return re.sub(r'//.*', '', src)


def function_body(src: str, signature_re: str) -> str | None:
    m = re.search(signature_re, src)
    if not m:
        return None
    i = src.index('{', m.end() - 1)
    depth = 0
    for j in range(i, len(src)):
        if src[j] == '{':
            depth += 1
        elif src[j] == '}':
            depth -= 1
            if depth == 0:
                return src[i + 1:j]
    return None


SPEC_MAP = {
    'GetNumLeaves()': 'num_leaves', 'GetNumNodes()': 'num_nodes', 'm_none_is_leaf': 'none_is_leaf',
    'm_namespace': 'namespace',
}
NODE_MAP = {
    'node.kind': 'kind', 'node.arity': 'arity', 'node.num_leaves': 'num_leaves',
    'node.num_nodes': 'num_nodes',
}


def extract(repo: Path):
    src = strip_comments((repo / 'src/treespec/hashing.cpp').read_text())
    body = function_body(src, r'PyTreeSpec::HashValueImpl\s*\(\s*\)\s*const\s*\{')
    spec_fields: list[str] = []
    node_fields: list[str] = []
    if body is None:
        return ['?HashValueImpl-not-found'], ['?HashValueImpl-not-found']
    loop = re.search(r'for\s*\(\s*const\s+Node\s*&\s*node\s*:\s*m_traversal\s*\)', body)
    head = body[:loop.start()] if loop else body
    tail = body[loop.end():] if loop else ''
    for m in re.finditer(r'HashCombine\s*\(\s*seed\s*,\s*([^;]*?)\)\s*;', head):
        arg = re.sub(r'\s+', '', m.group(1))
        spec_fields.append(SPEC_MAP.get(arg, '?' + arg))
    sw = re.search(r'switch\s*\(\s*node\.kind\s*\)', tail)
    pre = tail[:sw.start()] if sw else tail
    for m in re.finditer(r'HashCombine\s*\(\s*seed\s*,\s*([^;]*?)\)\s*;', pre):
        arg = re.sub(r'\s+', '', m.group(1))
        node_fields.append(NODE_MAP.get(arg, '?' + arg))
    if sw:
        # the per-kind switch hashes (a function of) node_data / the custom type
        sw_body = tail[sw.end():]
        if 'node.node_data' in sw_body and 'GetType(node)' in sw_body:
            node_fields.append('data')
        else:
            node_fields.append('?switch-without-node_data')
        # anything else read from the node or the spec inside the switch is unknown to the model
        for m in re.finditer(r'\b(node\.(?!node_data|kind|arity)\w+|m_\w+)', sw_body):
            node_fields.append('?' + m.group(1))
        # every value fed to HashCombine inside the switch must be a Python *value* hash (py::hash): == compares node_data
        # with Python ==, so hashing an object identity (py::handle / .ptr()) breaks "equal treespecs hash equally"
        for m in re.finditer(r'HashCombine\s*(<[^>]*>)?\s*\(\s*seed\s*,', sw_body):
            d, k = 1, m.end()
            while k < len(sw_body) and d:
                d += sw_body[k] == '('
                d -= sw_body[k] == ')'
                k += 1
            arg = re.sub(r'\s+', '', sw_body[m.end():k - 1])
            if m.group(1) or 'py::hash(' not in arg or '.ptr()' in arg:
                node_fields.append('?identity-hash:' + (m.group(1) or '') + arg[:60])
    return spec_fields, node_fields


def extract_eq(repo: Path):
    src = strip_comments((repo / 'src/treespec/richcomparison.cpp').read_text())
    body = function_body(src, r'PyTreeSpec::EqualTo\s*\([^)]*\)\s*const\s*\{')
    if body is None:
        return ['?EqualTo-not-found']
    flat = re.sub(r'\s+', '', body)
    facts = []
    checks = [
        ('size', 'm_traversal.size()!=other.m_traversal.size()'),
        ('none_is_leaf', 'm_none_is_leaf!=other.m_none_is_leaf'),
        ('namespace_compat', '!m_namespace.empty()&&!other.m_namespace.empty()&&m_namespace!=other.m_namespace'),
        ('num_nodes', 'GetNumNodes()!=other.GetNumNodes()'),
        ('num_leaves', 'GetNumLeaves()!=other.GetNumLeaves()'),
        ('kind', 'a->kind!=b->kind'),
        ('arity', 'a->arity!=b->arity'),
        ('has_data', 'static_cast<bool>(a->node_data)!=static_cast<bool>(b->node_data)'),
        ('custom', 'a->custom!=b->custom'),
        ('data', 'a->node_data&&a->node_data.not_equal(b->node_data)'),
        ('node_num_leaves', 'EXPECT_EQ(a->num_leaves,b->num_leaves)'),
        ('node_num_nodes', 'EXPECT_EQ(a->num_nodes,b->num_nodes)'),
    ]
    for name, pat in checks:
        if pat in flat:
            facts.append(name)
    return facts


def lean_list(xs):
    return '[' + ', '.join('"' + x.replace('\\', '\\\\').replace('"', '\\"') + '"' for x in xs) + ']'


def run(repo: Path, outdir: Path) -> dict:
    spec_fields, node_fields = extract(repo)
    eq_fields = extract_eq(repo)
    outdir.mkdir(parents=True, exist_ok=True)
    text = f'''/-
  GENERATED by harness/extract/hash_fields.py from src/treespec/hashing.cpp (HashValueImpl) and
  src/treespec/richcomparison.cpp (EqualTo) on every run.  Do not edit.
-/
namespace Optree.Generated

/-- treespec-level values fed to HashCombine before the node loop, in order -/
def hashSpecFields : List String := {lean_list(spec_fields)}

/-- per-node values fed to HashCombine, in order ("data" = the per-kind switch over node_data) -/
def hashNodeFields : List String := {lean_list(node_fields)}

/-- the comparisons found in EqualTo -/
def eqFields : List String := {lean_list(eq_fields)}

end Optree.Generated
'''
    f = outdir / 'Hash.lean'
    if not f.exists() or f.read_text() != text:
        f.write_text(text)
    return {'translator': 'hash_fields', 'hashSpecFields': spec_fields, 'hashNodeFields': node_fields,
            'eqFields': eq_fields}


if __name__ == '__main__':
    import sys
    print(run(Path(sys.argv[1] if len(sys.argv) > 1 else '/repo'),
              Path(__file__).resolve().parents[2] / 'lean/OptreeModel/Generated'))
