"""T-fresh: aliasing facts C14 depends on.

(a) hand-outs: for every inspection method of PyTreeSpec (Entries, Children, Child, GetOneLevel, Paths,
    Accessors) and the leaves list of Flatten / FlattenWithPath, is every returned container a fresh
    object?  Methods returning `std::vector<…>` / `std::unique_ptr<…>` / a pair of them are converted into
    a new Python object on every call; for methods returning a `py::list` every `return` expression is
    classified against a list of forms known to copy.  Anything unrecognised is reported as an alias.
(b) in-place sorts: every `TotalOrderSort(x)` call in src/ and include/: was `x` created in the same
    function by a copying form (`DictKeys(…)`, `.copy()`, a set difference, a brace-initialised list)?
(c) Python layer: in-place mutator calls (`sort`, `append`, `extend`, `insert`, `pop`, `remove`, `clear`,
    `update`, `reverse`, `setdefault`, `popitem`, item assignment / deletion) whose receiver is a parameter
    of the enclosing function in optree/ops.py, optree/registry.py, optree/accessors.py, optree/typing.py,
    optree/functools.py, optree/dataclasses.py (found with `ast`, not a regular expression).

Regenerates lean/OptreeModel/Generated/Fresh.lean."""

from __future__ import annotations

import ast
import re
from pathlib import Path

from extract.hash_fields import function_body, strip_comments

METHODS = [  # (model name, file, signature regex)
    ('entries', 'src/treespec/treespec.cpp', r'(?P<ret>[\w:<>, ]+?)\s+PyTreeSpec::Entries\s*\(\s*\)\s*const\s*\{'),
    ('children', 'src/treespec/treespec.cpp', r'(?P<ret>[\w:<>, ]+?)\s+PyTreeSpec::Children\s*\(\s*\)\s*const\s*\{'),
    ('child', 'src/treespec/treespec.cpp', r'(?P<ret>[\w:<>, ]+?)\s+PyTreeSpec::Child\s*\(\s*ssize_t\s+index\s*\)\s*const\s*\{'),
    ('one_level', 'src/treespec/treespec.cpp',
     r'(?P<ret>[\w:<>, ]+?)\s+PyTreeSpec::GetOneLevel\s*\([^)]*\)\s*const\s*\{'),
    ('paths', 'src/treespec/treespec.cpp', r'(?P<ret>[\w:<>, ]+?)\s+PyTreeSpec::Paths\s*\(\s*\)\s*const\s*\{'),
    ('accessors', 'src/treespec/treespec.cpp', r'(?P<ret>[\w:<>, ]+?)\s+PyTreeSpec::Accessors\s*\(\s*\)\s*const\s*\{'),
    ('flatten_leaves', 'src/treespec/flatten.cpp',
     r'(?P<ret>std::pair<[^;{]*?>)\s+PyTreeSpec::Flatten\s*\([^)]*\)\s*\{'),
]
ORDER = [m[0] for m in METHODS]

FRESH_RETURN_TYPES = re.compile(r'^(std::vector<|std::unique_ptr<|std::pair<std::vector<)')
FRESH_EXPR = [
    re.compile(r'^py::list\{\}$'),
    re.compile(r'^py::getattr\([\w.()<>:, ]+,Py_Get_ID\(copy\)\)\(\)$'),
]
COPYING_INIT = [
    re.compile(r'^DictKeys\('), re.compile(r'^SortedDictKeys\('),
    re.compile(r'^py::getattr\(.*,Py_Get_ID\(copy\)\)\(\)$'),
    re.compile(r'^\{[\w.]*-[\w.]*\}$'),           # py::list x{a - b}: a new set, listed
    re.compile(r'^\{[\w.]+\.arity\}$|^\{\}$'),      # py::list x{n}: n empty slots
]


def squeeze(s: str) -> str:
    return re.sub(r'\s+', '', s)


def node_field_types(repo: Path) -> dict[str, str]:
    """declared type of every Node field; a `py::object` field all of whose assignments in src/ are
    `thread_safe_cast<py::tuple>(…)` or copies of the same field of another node counts as `py::tuple`"""
    h = strip_comments((repo / 'include/optree/treespec.h').read_text())
    body = function_body(h, r'struct\s+Node\s*\{') or ''
    types = {m.group(2): m.group(1)
             for m in re.finditer(r'(py::\w+|ssize_t|PyTreeKind)\s+(\w+)\s*(?:\{[^}]*\}|=[^;]*)?;', body)}
    srcs = [strip_comments(f.read_text()) for f in sorted((repo / 'src').rglob('*.cpp'))]
    for field, ty in list(types.items()):
        if ty != 'py::object':
            continue
        rhs = [squeeze(m.group(1)) for src in srcs
               for m in re.finditer(r'\.' + field + r'\s*=\s*([^;,]+(?:\([^;]*?\))?)\s*[;,]', src)]
        if rhs and all(r.startswith('thread_safe_cast<py::tuple>(') or re.fullmatch(r'\w+\.' + field, r) for r in rhs):
            types[field] = 'py::tuple'
    return types


def classify_return(expr: str, body: str, fields: dict[str, str]) -> bool:
    e = squeeze(expr)
    if any(r.match(e) for r in FRESH_EXPR):
        return True
    m = re.match(r'^py::list\{(?:root|node)\.(\w+)\}$', e)
    if m:   # the converting constructor copies unless the argument already is a list
        return fields.get(m.group(1)) == 'py::tuple'
    if re.match(r'^\w+$', e):  # a local: how was it initialised?
        d = re.search(r'py::list\s+' + re.escape(e) + r'\s*(\{[^;]*\}|=[^;]*);', body)
        if d:
            init = squeeze(d.group(1)).lstrip('=')
            return any(r.match(init) for r in COPYING_INIT)
    return False


def handouts(repo: Path):
    fields = node_field_types(repo)
    out = []
    for name, rel, sig in METHODS:
        src = strip_comments((repo / rel).read_text())
        m = re.search(sig, src)
        if not m:
            out.append((name, False, 'signature not found'))
            continue
        ret = squeeze(m.group('ret')).replace('/*static*/', '')
        body = function_body(src, sig) or ''
        if FRESH_RETURN_TYPES.match(ret):
            out.append((name, True, f'returns {ret}'))
            continue
        rets = re.findall(r'\breturn\s+([^;]+);', body)
        verdicts = [(r, classify_return(r, body, fields)) for r in rets]
        bad = [squeeze(r) for r, ok in verdicts if not ok]
        out.append((name, bool(rets) and not bad, f'{len(rets)} return sites' + (f'; alias: {bad}' if bad else '')))
    return out


def sort_sites(repo: Path):
    sites = []
    files = sorted((repo / 'src').rglob('*.cpp')) + sorted((repo / 'include').rglob('*.h'))
    for f in files:
        src = strip_comments(f.read_text())
        for m in re.finditer(r'\bTotalOrderSort\s*\(\s*(\w+)\s*\)\s*;', src):
            var = m.group(1)
            before = src[:m.start()]
            # nearest preceding initialisation / assignment of the variable (the enclosing function is
            # not delimited: a declaration in an earlier function can only be matched if none is closer)
            cands = list(re.finditer(r'(?:py::list|auto|const\s+auto)\s+' + re.escape(var) + r'\s*(\{[^;]*\}|=[^;]*);|\b'
                                     + re.escape(var) + r'\s*=\s*([^;=][^;]*);', before))
            rel = str(f.relative_to(repo))
            line = sum(1 for x in sites if x[0].startswith(rel + '#')) + 1
            if not cands:
                # the function's own parameter (TotalOrderSort's definition is not a call site)
                sites.append((f'{rel}#{line}:{var}', False))
                continue
            c = cands[-1]
            init = squeeze(c.group(1) or c.group(2) or '').lstrip('=')
            sites.append((f'{rel}#{line}:{var}', any(r.match(init) for r in COPYING_INIT)))
    return sites


MUTATORS = {'sort', 'append', 'extend', 'insert', 'pop', 'remove', 'clear', 'update', 'reverse', 'setdefault',
            'popitem', 'appendleft', 'extendleft', 'rotate', 'move_to_end', '__setitem__', '__delitem__'}
PY_FILES = ['optree/ops.py', 'optree/registry.py', 'optree/accessors.py', 'optree/typing.py', 'optree/functools.py',
            'optree/dataclasses.py', 'optree/utils.py']


def py_param_mutations(repo: Path):
    found = []
    for rel in PY_FILES:
        p = repo / rel
        if not p.exists():
            continue
        tree = ast.parse(p.read_text())
        for fn in ast.walk(tree):
            if not isinstance(fn, (ast.FunctionDef, ast.AsyncFunctionDef)):
                continue
            params = {a.arg for a in fn.args.posonlyargs + fn.args.args + fn.args.kwonlyargs}
            params -= {'self', 'cls'}
            # a parameter re-bound anywhere in the function no longer (necessarily) names the operand
            for n in ast.walk(fn):
                if isinstance(n, (ast.Assign, ast.AugAssign, ast.AnnAssign)):
                    tgts = n.targets if isinstance(n, ast.Assign) else [n.target]
                    for t in tgts:
                        for nm in ast.walk(t):
                            if isinstance(nm, ast.Name) and isinstance(nm.ctx, ast.Store):
                                params.discard(nm.id)
            for n in ast.walk(fn):
                if isinstance(n, ast.Call) and isinstance(n.func, ast.Attribute) and n.func.attr in MUTATORS \
                        and isinstance(n.func.value, ast.Name) and n.func.value.id in params:
                    found.append(f'{rel}:{n.lineno}:{fn.name}:{n.func.value.id}.{n.func.attr}')
                if isinstance(n, (ast.Assign, ast.AugAssign, ast.Delete)):
                    tgts = n.targets if isinstance(n, (ast.Assign, ast.Delete)) else [n.target]
                    for t in tgts:
                        if isinstance(t, ast.Subscript) and isinstance(t.value, ast.Name) and t.value.id in params:
                            found.append(f'{rel}:{n.lineno}:{fn.name}:{t.value.id}[...]=')
    return found


def run(repo: Path, outdir: Path) -> dict:
    hs = handouts(repo)
    ss = sort_sites(repo)
    pm = py_param_mutations(repo)
    b = lambda v: 'true' if v else 'false'   # noqa: E731
    q = lambda s: '"' + s.replace('\\', '\\\\').replace('"', '\\"') + '"'   # noqa: E731
    text = f'''/-
  GENERATED by harness/extract/fresh.py from src/treespec/treespec.cpp, src/treespec/flatten.cpp,
  include/optree/treespec.h, every TotalOrderSort call site in src/ and include/, and the Python layer
  (ast) on every run.  Do not edit.
-/
namespace Optree.Generated

/-- inspection method ↦ every container it returns is a fresh object -/
def handoutFresh : List (String × Bool) :=
  [{", ".join(f"({q(n)}, {b(ok)})" for n, ok, _ in hs)}]

/-- `TotalOrderSort(x)` call sites ↦ `x` is a copy made in the same function -/
def sortSites : List (String × Bool) :=
  [{", ".join(f"({q(s)}, {b(ok)})" for s, ok in ss)}]

/-- in-place mutator calls on a parameter in the Python layer -/
def pyParamMutations : List String :=
  [{", ".join(q(s) for s in pm)}]

end Optree.Generated
'''
    outdir.mkdir(parents=True, exist_ok=True)
    f = outdir / 'Fresh.lean'
    if not f.exists() or f.read_text() != text:
        f.write_text(text)
    return {'translator': 'fresh', 'handouts': [(n, ok, why) for n, ok, why in hs], 'sortSites': ss,
            'pyParamMutations': pm}


if __name__ == '__main__':
    import json
    import sys
    print(json.dumps(run(Path(sys.argv[1] if len(sys.argv) > 1 else '/repo'), Path('/tmp/fresh-out')), indent=1))
