"""T-locks: which engine-mutex scopes contain a call that can re-enter Python.

Every `scoped_(read_|write_|recursive_)?lock_guard NAME{MUTEX}` in src/ and include/ opens a scope that
ends with the enclosing brace block.  A call inside the scope re-enters Python if it is one of the
primitives below (attribute access, repr/str, calls, comparisons, hashing, warnings, dropping
references) or a function of the repository that (transitively) contains one.  For every scope the
lock program `acqE l, cb …, relE l` is emitted; the obligation `okProg` in Properties/C17.lean demands
that no `cb` lies between `acqE` and `relE`.

Regenerates lean/OptreeModel/Generated/Locks.lean."""

from __future__ import annotations

import re
from pathlib import Path

from extract.hash_fields import strip_comments

PRIMITIVES = [
    r'PyErr_WarnEx\s*\(', r'\bPyRepr\s*\(', r'\bPyStr\s*\(', r'py::repr\s*\(', r'py::str\s*\(\s*\w+\s*\)', r'PyObject_Repr\s*\(',
    r'PyObject_Str\s*\(', r'py::getattr\s*\(', r'py::hasattr\s*\(', r'PyObject_GetAttr\w*\s*\(',
    r'PyObject_HasAttr\w*\s*\(', r'\.attr\s*\(', r'PyObject_Call\w*\s*\(', r'PyObject_RichCompare\w*\s*\(',
    r'PyObject_Hash\s*\(', r'py::hash\s*\(', r'\.equal\s*\(', r'\.not_equal\s*\(', r'PyObject_IsInstance\s*\(',
    r'PyObject_IsSubclass\s*\(', r'py::isinstance\s*\(', r'PyList_Sort\s*\(',
    r'PySequence_List\s*\(', r'PyDict_GetItemWithError\s*\(', r'PyDict_SetItem\s*\(', r'PyDict_Contains\s*\(',
]
PRIM = re.compile('|'.join(PRIMITIVES))
GUARD = re.compile(r'\bscoped_(?:read_|write_|recursive_)?lock_guard\s+(\w+)\s*\{\s*([\w:.>-]+)\s*\}\s*;')
LOCK_IDS = {'sm_mutex': 0, 'sm_is_dict_insertion_ordered_mutex': 6, 'm_mutex': 7}


def no_strings(src: str) -> str:
    return re.sub(r'"(?:[^"\\\n]|\\.)*"', '""', src)


def gil_build(src: str) -> str:
    """drop the `#ifdef Py_GIL_DISABLED` branches: the engine is built for an interpreter with a GIL"""
    out, stack = [], []
    for line in src.splitlines():
        if re.match(r'\s*#\s*ifdef\s+Py_GIL_DISABLED', line):
            stack.append(['gil', False])
            continue
        if re.match(r'\s*#\s*if', line):
            stack.append(['other', True])
            out.append(line)
            continue
        if re.match(r'\s*#\s*else', line) and stack and stack[-1][0] == 'gil':
            stack[-1][1] = True
            continue
        if re.match(r'\s*#\s*endif', line) and stack:
            if stack.pop()[0] == 'other':
                out.append(line)
            continue
        if all(keep for _, keep in stack):
            out.append(line)
    return '\n'.join(out)


def drop_deferred(src: str) -> str:
    """remove code that is only *defined* here and runs later or once at import time: the argument of
    `py::cpp_function(…)` (weak-reference callbacks) and of `.call_once_and_store_result(…)`"""
    for head in ('py::cpp_function(', '.call_once_and_store_result('):
        while True:
            i = src.find(head)
            if i < 0:
                break
            k, depth = i + len(head) - 1, 0
            while k < len(src):
                if src[k] == '(':
                    depth += 1
                elif src[k] == ')':
                    depth -= 1
                    if depth == 0:
                        break
                k += 1
            src = src[:i] + head.replace('(', '_DEFERRED') + src[k + 1:]
    return src


def functions(src: str) -> dict[str, str]:
    """name -> body for every function / method definition (crude: NAME(...) [const] [noexcept] {)"""
    out: dict[str, str] = {}
    for m in re.finditer(r'\b([A-Za-z_]\w*)\s*(?:<[^;{}()]*>)?\s*\(', src):
        name = m.group(1)
        if name in ('if', 'for', 'while', 'switch', 'catch', 'return', 'sizeof', 'decltype', 'static_cast',
                    'reinterpret_cast', 'defined', 'noexcept', 'alignof', 'throw'):
            continue
        depth, k = 0, m.end() - 1
        while k < len(src):
            if src[k] == '(':
                depth += 1
            elif src[k] == ')':
                depth -= 1
                if depth == 0:
                    break
            k += 1
        tail = src[k + 1:k + 120]
        mt = re.match(r'\s*(?:const\s*)?(?:noexcept(?:\([^)]*\))?\s*)?(?:->\s*[\w:<>,\s&*]+?)?\s*\{', tail)
        if not mt:
            continue
        start = k + 1 + mt.end() - 1
        d, j = 0, start
        while j < len(src):
            if src[j] == '{':
                d += 1
            elif src[j] == '}':
                d -= 1
                if d == 0:
                    break
            j += 1
        body = src[start + 1:j]
        out[name] = out.get(name, '') + '\n' + body
    return out


def scope_after(src: str, pos: int) -> str:
    """text from pos to the end of the enclosing brace block"""
    d = 0
    for j in range(pos, len(src)):
        if src[j] == '{':
            d += 1
        elif src[j] == '}':
            if d == 0:
                return src[pos:j]
            d -= 1
    return src[pos:]


def enclosing_function(src: str, pos: int) -> str:
    best = '?'
    for m in re.finditer(r'\b(?:PyTreeTypeRegistry|PyTreeSpec|PyTreeIter)::(\w+)\s*\(|inline\s+[\w:<>\s&*]+?\b(\w+)\s*\(', src[:pos]):
        best = m.group(1) or m.group(2)
    return best


def run(repo: Path, outdir: Path) -> dict:
    files = sorted((repo / 'src').rglob('*.cpp')) + sorted((repo / 'include').rglob('*.h'))
    srcs = {str(f.relative_to(repo)): drop_deferred(gil_build(no_strings(strip_comments(f.read_text())))) for f in files}
    fns: dict[str, str] = {}
    for rel, src in srcs.items():
        for n, b in functions(src).items():
            fns[n] = fns.get(n, '') + '\n' + b
    reenters = {n for n, b in fns.items() if PRIM.search(b)}
    changed = True
    while changed:
        changed = False
        for n, b in fns.items():
            if n in reenters:
                continue
            if any(re.search(r'\b' + re.escape(g) + r'\s*(?:<[^;{}()]*>)?\s*\(', b) for g in reenters):
                reenters.add(n)
                changed = True
    scopes = []
    next_id = 10
    for rel, src in srcs.items():
        if rel.endswith('synchronization.h'):
            continue
        for m in GUARD.finditer(src):
            mutex = m.group(2).split('::')[-1].split('.')[-1].split('>')[-1]
            fn = enclosing_function(src, m.start())
            key = mutex if mutex in LOCK_IDS else f'{rel}:{mutex}'
            if key not in LOCK_IDS:
                LOCK_IDS[key] = next_id
                next_id += 1
            body = scope_after(src, m.end())
            calls = []
            for c in PRIM.finditer(body):
                calls.append(re.sub(r'\s*\($', '', c.group(0)).strip().lstrip('.'))
            for g in sorted(reenters):
                if g in ('lock', 'unlock'):
                    continue
                if re.search(r'\b' + re.escape(g) + r'\s*(?:<[^;{}()]*>)?\s*\(', body):
                    calls.append(g)
            scopes.append((f'{rel}:{fn}', LOCK_IDS[key], sorted(set(calls))))
    q = lambda s: '"' + s.replace('\\', '\\\\').replace('"', '\\"') + '"'   # noqa: E731
    sep = ',\n   '

    def prog(lock, calls):
        return '[' + ', '.join([f'.acqE {lock}'] + ['.cb'] * len(calls) + [f'.relE {lock}']) + ']'
    text = f'''/-
  GENERATED by harness/extract/locks.py from every scoped lock guard in src/ and include/ on every run.
  Do not edit.
-/
import OptreeModel.Model.Threads

namespace Optree.Generated

/-- (site, mutex id, calls inside the scope that can re-enter Python) -/
def lockScopes : List (String × Nat × List String) :=
  [{sep.join(f"({q(s)}, {l}, [{', '.join(q(c) for c in cs)}])" for s, l, cs in scopes)}]

/-- the lock program of every scope: acquire, one `cb` per re-entering call, release -/
def lockProgs : List (String × ThreadProg) :=
  [{sep.join(f"({q(s)}, {prog(l, cs)})" for s, l, cs in scopes)}]

end Optree.Generated
'''
    outdir.mkdir(parents=True, exist_ok=True)
    f = outdir / 'Locks.lean'
    if not f.exists() or f.read_text() != text:
        f.write_text(text)
    return {'translator': 'locks', 'scopes': scopes, 'reentering_functions': sorted(reenters)[:60]}


if __name__ == '__main__':
    import json
    import sys
    print(json.dumps(run(Path(sys.argv[1] if len(sys.argv) > 1 else '/repo'), Path('/tmp/locks-out')), indent=0))
