"""T-access / T-depth: facts C16 depends on.

(a) item accesses: every `ListGetItem` / `TupleGetItem` / `DictGetItem` call in the functions that walk
    *user* containers (flatten.cpp, traversal.cpp, constructor.cpp): is the accessed container immutable
    (a tuple), a private copy made in the same function, and is the accessor checked on the code path of
    the running Python version (pytypes.h, `#if PY_VERSION_HEX` branches evaluated for sys.hexversion)?
(b) recursion: every self-recursive member function of PyTreeSpec / PyTreeIter in src/treespec/*.cpp and
    whether its body has the `depth > MAX_RECURSION_DEPTH` guard and every recursive call passes `depth + 1`; the guard's comparison operator in the
    three tree traversals; the value of the constant for the running Python version.

Regenerates lean/OptreeModel/Generated/Access.lean."""

from __future__ import annotations

import re
import sys
from pathlib import Path

from extract.hash_fields import strip_comments

WALKERS_OF_USER_CONTAINERS = ['src/treespec/flatten.cpp', 'src/treespec/traversal.cpp', 'src/treespec/constructor.cpp']


def preprocess_version(src: str, hexversion: int) -> str:
    """keep the branch of every `#if PY_VERSION_HEX >= X … #else … #endif` that applies"""
    out = []
    stack = []          # (keep_this_branch, parent_keeps)
    for line in src.splitlines():
        m = re.match(r'\s*#\s*if\s+PY_VERSION_HEX\s*>=\s*(0x[0-9A-Fa-f]+)', line)
        if m:
            parent = all(k for k, _ in stack) if stack else True
            stack.append([hexversion >= int(m.group(1), 16), 'ver'])
            continue
        if re.match(r'\s*#\s*if', line):
            stack.append([True, 'other'])
            out.append(line)
            continue
        if re.match(r'\s*#\s*else', line) and stack:
            if stack[-1][1] == 'ver':
                stack[-1][0] = not stack[-1][0]
                continue
            out.append(line)
            continue
        if re.match(r'\s*#\s*endif', line) and stack:
            kind = stack.pop()[1]
            if kind == 'other':
                out.append(line)
            continue
        if all(k for k, _ in stack):
            out.append(line)
    return '\n'.join(out)


def body_of(src: str, start: int) -> str:
    j = src.index('{', start)
    depth = 0
    for k in range(j, len(src)):
        if src[k] == '{':
            depth += 1
        elif src[k] == '}':
            depth -= 1
            if depth == 0:
                return src[j + 1:k]
    return src[j + 1:]


def accessor_checked(repo: Path) -> dict[str, bool]:
    h = preprocess_version(strip_comments((repo / 'include/optree/pytypes.h').read_text()), sys.hexversion)
    res = {}
    for name in ('ListGetItemAs', 'TupleGetItemAs', 'DictGetItemAs'):
        m = re.search(r'inline\s+Py_ALWAYS_INLINE\s+T\s+' + name + r'\s*\(', h)
        body = body_of(h, m.end()) if m else ''
        flat = re.sub(r'\s+', '', body)
        unchecked_api = bool(re.search(r'Py(List|Tuple)_GET_ITEM\(|PyDict_GetItem\(', flat))
        null_check = 'nullptr' in flat and 'throw' in flat
        res[name.replace('As', '')] = null_check and not unchecked_api
    return res


PRIVATE_INIT = re.compile(r'^(DictKeys\(|SortedDictKeys\(|thread_safe_cast<py::list>\(|py::list\{)')


def access_sites(repo: Path):
    checked = accessor_checked(repo)
    sites = []
    index_sites.clear()
    for rel in WALKERS_OF_USER_CONTAINERS:
        src = strip_comments((repo / rel).read_text())
        counts: dict[tuple, int] = {}
        for m in re.finditer(r'\b(List|Tuple|Dict)GetItem(?:As<[^>]*>)?\s*\(\s*([\w.]+(?:->\w+)*)\s*,', src):
            acc, var = m.group(1) + 'GetItem', m.group(2)
            before = src[:m.start()]
            decl = list(re.finditer(r'(?:const\s+)?(?:auto|py::\w+)\s+' + re.escape(var) + r'\s*(?:=\s*([^;]*)|\{([^;]*)\});|\b'
                                    + re.escape(var) + r'\s*=\s*([^;=][^;]*);', before))
            init = ''
            if decl:
                d = decl[-1]
                init = re.sub(r'\s+', '', d.group(1) or d.group(2) or d.group(3) or '')
            immutable = acc == 'TupleGetItem' or 'py::tuple' in init
            private = bool(PRIVATE_INIT.match(init))
            key = (rel, acc, var)
            counts[key] = counts.get(key, 0) + 1
            sites.append((f'{rel}:{acc}({var})#{counts[key]}', immutable, private, checked[acc], True))
            # how is the index bounded?  (only matters for accessors that are not bounds-checked)
            d, k = 1, m.end()
            while k < len(src) and d:
                d += src[k] == '('
                d -= src[k] == ')'
                k += 1
            index = re.sub(r'\s+', '', src[m.end():k - 1])
            index_sites.append((f'{rel}:{acc}({var})#{counts[key]}', index_bound(before, index, acc), checked[acc]))
    return sites, checked


index_sites: list = []


def index_bound(before: str, index: str, acc: str) -> str:
    """'const' (integer literal), 'key' (dict lookup), 'loop' (the variable of an enclosing `for (i = 0; i < n; ++i)`),
    'guard' (a counter compared against a bound, with a throw, earlier in the same loop body), else 'none'"""
    if acc == 'DictGetItem':
        return 'key'
    if re.fullmatch(r'\d+', index):
        return 'const'
    var = re.match(r'[A-Za-z_]\w*', index)
    if not var:
        return 'none'
    v = re.escape(var.group(0))
    # innermost enclosing block structure: walk back and find unclosed `for (...)` headers
    depth = 0
    k = len(before) - 1
    while k >= 0:
        c = before[k]
        if c == '}':
            depth += 1
        elif c == '{':
            if depth == 0:
                head = before[max(0, k - 300):k]
                mfor = re.search(r'for\s*\(([^{}]*)\)\s*$', head)
                if mfor and re.search(r'\b' + v + r'\s*=\s*0\s*;\s*' + v + r'\s*<[^;]*;\s*(\+\+' + v + r'|' + v + r'\+\+)',
                                      re.sub(r'\s+', ' ', mfor.group(1))):
                    return 'loop'
                if mfor and re.search(r'\b' + v + r'\s*=\s*\w+\s*-\s*1\s*;\s*' + v + r'\s*>=\s*0\s*;\s*(--' + v + r'|' + v + r'--)',
                                      re.sub(r'\s+', ' ', mfor.group(1))):
                    return 'loop'
                if mfor:
                    # a range-for whose body checks the counter before using it
                    body = before[k:]
                    if re.search(r'if\s*\(\s*' + v + r'\s*>=\s*[^)]*\)\s*(\[\[\w+\]\]\s*)?\{[^{}]*throw', body):
                        return 'guard'
            else:
                depth -= 1
        k -= 1
    return 'none'


def recursion(repo: Path):
    funcs = []
    for f in sorted((repo / 'src' / 'treespec').glob('*.cpp')):
        src = re.sub(r'"(?:[^"\\\n]|\\.)*"', '""', strip_comments(f.read_text()))     # no string literals
        for m in re.finditer(r'\b(PyTreeSpec|PyTreeIter)::(\w+)\s*\(', src):
            # a definition: the parameter list is followed by `{` (possibly after const / noexcept)
            depth, k = 0, m.end() - 1
            while k < len(src):
                if src[k] == '(':
                    depth += 1
                elif src[k] == ')':
                    depth -= 1
                    if depth == 0:
                        break
                k += 1
            tail = src[k + 1:k + 40]
            if not re.match(r'\s*(const)?\s*(noexcept)?\s*\{', tail):
                continue
            name = m.group(2)
            body = body_of(src, k)
            calls = list(re.finditer(r'\b' + name + r'\s*(?:<[^;()]*>)?\s*\(', body))
            if calls:
                guarded = bool(re.search(r'depth\s*>\s*MAX_RECURSION_DEPTH', body))
                # ... and every recursive call goes one level deeper: its argument list contains `depth + 1`
                for c in calls:
                    d, k = 0, c.end() - 1
                    while k < len(body):
                        if body[k] == '(':
                            d += 1
                        elif body[k] == ')':
                            d -= 1
                            if d == 0:
                                break
                        k += 1
                    if not re.search(r'\bdepth\s*\+\s*1\b', body[c.end():k]):
                        guarded = False
                funcs.append((f'{f.name}:{name}', guarded))
    guards = []
    for rel in ('src/treespec/flatten.cpp', 'src/treespec/traversal.cpp'):
        src = strip_comments((repo / rel).read_text())
        guards += [re.sub(r'\s+', '', g) for g in re.findall(r'if\s*\(\s*(depth\s*[<>=!]+\s*MAX_RECURSION_DEPTH)\s*\)', src)]
    h = strip_comments((repo / 'include/optree/treespec.h').read_text())
    consts = [int(x) for x in re.findall(r'MAX_RECURSION_DEPTH\s*=\s*std::min\(\s*(\d+)', h)]
    # the first definition is the non-Windows / non-PyPy one in the pinned source
    return sorted(set(funcs)), guards, consts


def run(repo: Path, outdir: Path) -> dict:
    sites, checked = access_sites(repo)
    funcs, guards, consts = recursion(repo)
    b = lambda v: 'true' if v else 'false'   # noqa: E731
    q = lambda s: '"' + s.replace('\\', '\\\\').replace('"', '\\"') + '"'   # noqa: E731
    sep = ',\n   '
    text = f'''/-
  GENERATED by harness/extract/access.py from include/optree/pytypes.h (for Python {sys.version_info[0]}.{sys.version_info[1]}),
  src/treespec/*.cpp and include/optree/treespec.h on every run.  Do not edit.
-/
import OptreeModel.Model.Memory

namespace Optree.Generated

/-- item accesses on user containers: (site, ⟨immutable, privateCopy, checked, callback⟩) -/
def accessSites : List (String × LoopDesc) :=
  [{sep.join(f"({q(s)}, ⟨{b(i)}, {b(p)}, {b(c)}, {b(cb)}⟩)" for s, i, p, c, cb in sites)}]

/-- how the index of every item access is bounded: (site, const | key | loop | guard | none, accessor is bounds-checked) -/
def indexSites : List (String × String × Bool) :=
  [{sep.join(f"({q(s)}, {q(bd)}, {b(c)})" for s, bd, c in index_sites)}]

/-- self-recursive walkers: (function, has the depth guard) -/
def recursiveWalkers : List (String × Bool) :=
  [{sep.join(f"({q(n)}, {b(g)})" for n, g in funcs)}]

/-- the guard expressions of the three tree traversals -/
def depthGuards : List String := [{", ".join(q(g) for g in guards)}]

/-- candidate values of MAX_RECURSION_DEPTH in treespec.h -/
def maxDepthConstants : List Nat := [{", ".join(str(c) for c in consts)}]

end Optree.Generated
'''
    outdir.mkdir(parents=True, exist_ok=True)
    f = outdir / 'Access.lean'
    if not f.exists() or f.read_text() != text:
        f.write_text(text)
    return {'translator': 'access', 'accessor_checked': checked, 'sites': sites, 'index_sites': list(index_sites), 'recursive': funcs, 'guards': guards,
            'constants': consts}


if __name__ == '__main__':
    import json
    print(json.dumps(run(Path(sys.argv[1] if len(sys.argv) > 1 else '/repo'), Path('/tmp/access-out')), indent=0))
