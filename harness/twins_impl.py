"""C18: run the engine's and the Python twins' versions of the same logic."""

from __future__ import annotations

import os

import optree
from optree import _C

from sexp import A, Atom


class TupleSub(tuple):
    pass


class IntSub(int):
    pass


def build_class(d):
    """a Python object realising the class descriptor `d` = (cd isType tsub fields mk asd bases n1 n2 n3 bt)"""
    _, is_type, tsub, fields, mk, asd, bases, n1, n2, n3, bt = d
    if bt == '0':
        return os.terminal_size          # the only way to get a type without Py_TPFLAGS_BASETYPE
    ns = {}
    if fields == 'tuple-str':
        ns['_fields'] = ('a', 'b')
    elif fields == 'tuple-mixed':
        ns['_fields'] = ('a', 1)
    elif fields == 'sub-str':
        ns['_fields'] = TupleSub(('a', 'b'))
    elif fields == 'sub-mixed':
        ns['_fields'] = TupleSub(('a', 1))
    elif fields == 'other':
        ns['_fields'] = ['a', 'b']
    if mk == '1':
        ns['_make'] = classmethod(lambda cls, it: cls(it))
    else:
        ns['_make'] = 5
    if asd == '1':
        ns['_asdict'] = lambda self: {}
    for name, v in (('n_fields', n1), ('n_sequence_fields', n2), ('n_unnamed_fields', n3)):
        if v == 'int':
            ns[name] = 2
        elif v == 'bool':
            ns[name] = True
        elif v == 'other':
            ns[name] = '2'
    if tsub == '1':
        if bases == '1':
            base = (tuple,)
        else:
            mid = type('Mid', (tuple,), {})
            base = (mid,)
    else:
        base = (object,)
    cls = type('Gen', base, ns)
    if is_type == '0':
        return cls() if tsub == '0' else cls(())
    return cls


def classify(d):
    obj = build_class(d)
    py_nt = optree.is_namedtuple_class.__python_implementation__
    py_ss = optree.is_structseq_class.__python_implementation__
    return [bool(_C.is_namedtuple_class(obj)), bool(py_nt(obj)), bool(_C.is_structseq_class(obj)), bool(py_ss(obj))]


def sort_twin(u, keys):
    d = {k: i for i, k in enumerate(keys)}
    engine = optree.tree_structure(d).entries()
    twin = optree.utils.total_order_sorted(keys)
    return [u.enc_keys(engine), u.enc_keys(twin)]


def py_one_level(impl, ins, tree):
    u = impl.u
    ns = 'c18ins' if ins else ''
    ctx = optree.dict_insertion_ordered(True, namespace=ns) if ins else None
    try:
        if ctx is not None:
            ctx.__enter__()
        try:
            out = optree.tree_flatten_one_level(tree, namespace=ns)
        except ValueError:
            return [A('none')]
    finally:
        if ctx is not None:
            ctx.__exit__(None, None, None)
    kind = int(out.kind)
    md = out.metadata
    node = (kind, len(out.children), md, None, None, 0, 0, None)
    data = u.enc_node(node)[2]
    return [[u.enc_obj(c) for c in out.children], data, u.enc_keys(out.entries), kind]
