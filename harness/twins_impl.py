"""C18: run the engine's and the Python twins' versions of the same logic."""

from __future__ import annotations

import os

import optree
from optree import _C

from sexp import A, Atom


class TupleSub(tuple):
    pass


class IntSub(int):
    pass


def build_class(d):
    """a Python object realising the class descriptor `d` = (cd isType tsub fields mk asd bases n1 n2 n3 bt)"""
    _, is_type, tsub, fields, mk, asd, bases, n1, n2, n3, bt = d
    if bt == '0':
        return os.terminal_size          # the only way to get a type without Py_TPFLAGS_BASETYPE
    ns = {}
    if fields == 'tuple-str':
        ns['_fields'] = ('a', 'b')
    elif fields == 'tuple-mixed':
        ns['_fields'] = ('a', 1)
    elif fields == 'sub-str':
        ns['_fields'] = TupleSub(('a', 'b'))
    elif fields == 'sub-mixed':
        ns['_fields'] = TupleSub(('a', 1))
    elif fields == 'other':
        ns['_fields'] = ['a', 'b']
    if mk == '1':
        ns['_make'] = classmethod(lambda cls, it: cls(it))
    else:
        ns['_make'] = 5
    if asd == '1':
        ns['_asdict'] = lambda self: {}
    for name, v in (('n_fields', n1), ('n_sequence_fields', n2), ('n_unnamed_fields', n3)):
        if v == 'int':
            ns[name] = 2
        elif v == 'bool':
            ns[name] = True
        elif v == 'other':
            ns[name] = '2'
    if tsub == '1':
        if bases == '1':
            base = (tuple,)
        else:
            mid = type('Mid', (tuple,), {})
            base = (mid,)
    else:
        base = (object,)
    cls = type('Gen', base, ns)
    if is_type == '0':
        return cls() if tsub == '0' else cls(())
    return cls


def classify(d):
    obj = build_class(d)
    py_nt = optree.is_namedtuple_class.__python_implementation__
    py_ss = optree.is_structseq_class.__python_implementation__
    return [bool(_C.is_namedtuple_class(obj)), bool(py_nt(obj)), bool(_C.is_structseq_class(obj)), bool(py_ss(obj))]


def twin_mismatches(d):
    """every engine / Python twin pair of optree.typing on the generated class (or object) and on an instance of it"""
    import collections
    import time as _time
    obj = build_class(d)
    subjects = [('generated', obj)]
    if isinstance(obj, type):
        for mk in (lambda: obj(()), lambda: obj()):
            try:
                subjects.append(('instance', mk()))
                break
            except Exception:  # noqa: BLE001
                pass
    P = collections.namedtuple('P', ['x', 'y'])
    subjects += [('namedtuple class', P), ('namedtuple instance', P(1, 2)), ('structseq class', _time.struct_time),
                 ('structseq instance', _time.gmtime(0)), ('plain tuple', (1, 2)), ('int', 3)]
    # every struct-sequence type of the standard library that can be reached, with an instance where one is at hand
    # (os.stat_result has unnamed visible fields)
    import os as _os
    import sys as _sys
    extra = [('os.stat_result', _os.stat_result), ('os.stat()', _os.stat('.')), ('sys.float_info', _sys.float_info),
             ('sys.version_info', _sys.version_info), ('sys.flags', _sys.flags), ('os.terminal_size', _os.terminal_size),
             ('os.terminal_size()', _os.terminal_size((3, 4))), ('os.times()', _os.times()), ('type(sys.int_info)', type(_sys.int_info)),
             ('sys.hash_info', _sys.hash_info), ('sys.thread_info', _sys.thread_info)]
    try:
        import resource as _resource
        extra += [('resource.struct_rusage', _resource.struct_rusage), ('resource.getrusage()', _resource.getrusage(_resource.RUSAGE_SELF))]
    except ImportError:
        pass
    subjects += extra
    # classes derived from a genuine namedtuple class that shadow one of the traits the heuristic looks at (and the
    # well-formed subclass): fresh classes every time, the base classified first for half of them (the answer for a
    # class must not depend on what was classified before)
    import typing as _typing

    def derived(base_first):
        B = collections.namedtuple('B', ['x', 'y'])
        if base_first:
            optree.is_namedtuple_class(B)
            optree.tree_flatten(B(1, 2))
        zoo = {'ok-subclass': {}, 'fields-none': {'_fields': None}, 'fields-list': {'_fields': ['x', 'y']},
               'fields-nonstr': {'_fields': ('x', 1)}, 'asdict-none': {'_asdict': None}, 'make-none': {'_make': None},
               'fields-strsub': {'_fields': (type('S', (str,), {})('x'), 'y')}}
        out = []
        for label, ns in zoo.items():
            C = type('C_' + label.replace('-', '_'), (B,), {'__slots__': (), **ns})
            out.append((f'namedtuple subclass [{label}]{" after its base" if base_first else ""}', C))
            try:
                out.append((f'instance of namedtuple subclass [{label}]{" after its base" if base_first else ""}', C(1, 2)))
            except Exception:  # noqa: BLE001
                pass

        class TN(_typing.NamedTuple):
            a: int
            b: int
        if base_first:
            optree.is_namedtuple_class(TN)
        Mixed = type('Mixed', (TN,), {'_fields': None})
        out.append((f'typing.NamedTuple subclass [fields-none]{" after its base" if base_first else ""}', Mixed))
        return out
    subjects += derived(True) + derived(False)
    names = ['is_namedtuple', 'is_namedtuple_instance', 'is_namedtuple_class', 'is_structseq',
             'is_structseq_instance', 'is_structseq_class', 'namedtuple_fields', 'structseq_fields']
    out = []

    def run(f, x):
        try:
            r = f(x)
            return ('ok', r if isinstance(r, tuple) else bool(r))
        except Exception as e:  # noqa: BLE001
            return ('err', type(e).__name__)
    for label, x in subjects:
        for n in names:
            w = getattr(optree, n)
            cxx, py = run(w.__cxx_implementation__, x), run(w.__python_implementation__, x)
            pub = run(w, x)
            if cxx != py or pub != cxx:
                out.append(f'{n}({label}): engine {cxx}, Python twin {py}, public {pub}')
        if not isinstance(x, type) and isinstance(x, tuple):
            # the traversal classifies with the same heuristic: a tuple-subclass instance is a namedtuple node exactly when
            # the Python twin says its class is a namedtuple class (struct sequences likewise), else a leaf / plain tuple
            try:
                kind = optree.tree_structure(x).kind.name
            except Exception as e:  # noqa: BLE001
                kind = 'raised ' + type(e).__name__
            py_nt = run(optree.is_namedtuple_class.__python_implementation__, type(x))
            py_ss = run(optree.is_structseq_class.__python_implementation__, type(x))
            want = 'NAMEDTUPLE' if py_nt == ('ok', True) else 'STRUCTSEQUENCE' if py_ss == ('ok', True) else \
                ('TUPLE' if type(x) is tuple else 'LEAF')
            if kind != want:
                out.append(f'flatten({label}): the engine treats it as {kind}, the Python twins classify its class as {want}')
    return out


def sort_twin(u, keys):
    d = {k: i for i, k in enumerate(keys)}
    engine = optree.tree_structure(d).entries()
    twin = optree.utils.total_order_sorted(keys)
    return [u.enc_keys(engine), u.enc_keys(twin)]


def py_one_level(impl, ins, tree):
    u = impl.u
    ns = 'c18ins' if ins else ''
    ctx = optree.dict_insertion_ordered(True, namespace=ns) if ins else None
    try:
        if ctx is not None:
            ctx.__enter__()
        try:
            out = optree.tree_flatten_one_level(tree, namespace=ns)
        except ValueError:
            return [A('none')]
    finally:
        if ctx is not None:
            ctx.__exit__(None, None, None)
    kind = int(out.kind)
    md = out.metadata
    node = (kind, len(out.children), md, None, None, 0, 0, None)
    data = u.enc_node(node)[2]
    return [[u.enc_obj(c) for c in out.children], data, u.enc_keys(out.entries), kind]
