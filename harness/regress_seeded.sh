#!/bin/bash
# Run every stored seeded change against the quick check of its property (regression of the checks themselves).
# Works on a copy of the repository: VERIF_REPO (default: $VP_RUN_REPO when started through `vp run --with-repo`).
# usage: harness/regress_seeded.sh [name-prefix ...]
cd "$(dirname "$0")/.."
export VERIF_REPO=${VERIF_REPO:-${VP_RUN_REPO:?set VERIF_REPO to a scratch clone of /repo}}
export VERIF_SCRATCH=${VERIF_SCRATCH:-/var/tmp/optree-verif-regress}
test "$VERIF_REPO" != /repo || { echo "refusing to patch /repo itself"; exit 2; }
test -x lean/.lake/build/bin/driver || ./setup.sh
for d in seeded/*/; do
  n=$(basename $d); p=${n%%-*}
  if [ $# -gt 0 ]; then m=0; for pre in "$@"; do case $n in $pre*) m=1;; esac; done; [ $m = 1 ] || continue; fi
  patch=$PWD/$d/patch.diff
  [ -f $PWD/$d/patch-e406690.diff ] && patch=$PWD/$d/patch-e406690.diff
  if ! git -C $VERIF_REPO apply --check $patch 2>/dev/null; then echo "$n: patch does not apply to $(git -C $VERIF_REPO rev-parse --short HEAD)"; continue; fi
  git -C $VERIF_REPO apply $patch
  timeout 1800 ./check $p --tier quick > /tmp/reg-$n.log 2>&1; rc=$?
  git -C $VERIF_REPO checkout -- .
  echo "$n: rc=$rc $(tail -1 /tmp/reg-$n.log | cut -c1-170)"
done
rm -rf "$VERIF_SCRATCH"
