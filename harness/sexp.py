"""S-expressions of the line protocol (mirror of lean/OptreeModel/Model/Sexp.lean).

Representation: atoms are `Atom(str)`, strings are Python `str`, lists are Python `list`.
"""

from __future__ import annotations


class Atom(str):
    __slots__ = ()

    def __repr__(self) -> str:
        return f'Atom({str.__repr__(self)})'


def A(s) -> Atom:
    return Atom(str(s))


def parse(line: str):
    """iterative parser"""
    pos = 0
    n = len(line)
    stack: list[list] = []
    result = None
    done = False
    while True:
        while pos < n and line[pos] in ' \t\r\n':
            pos += 1
        if pos >= n:
            break
        if done:
            raise ValueError('trailing tokens')
        c = line[pos]
        if c == '(':
            pos += 1
            stack.append([])
            continue
        if c == ')':
            pos += 1
            if not stack:
                raise ValueError('unexpected )')
            item = stack.pop()
        elif c == '"':
            pos += 1
            buf = []
            while True:
                if pos >= n:
                    raise ValueError('unterminated string')
                ch = line[pos]
                if ch == '"':
                    pos += 1
                    break
                if ch == '\\':
                    nx = line[pos + 1]
                    buf.append({'n': '\n', 't': '\t'}.get(nx, nx))
                    pos += 2
                else:
                    buf.append(ch)
                    pos += 1
            item = ''.join(buf)
        else:
            start = pos
            while pos < n and line[pos] not in ' \t\r\n()"':
                pos += 1
            item = Atom(line[start:pos])
        if stack:
            stack[-1].append(item)
        else:
            result = item
            done = True
    if stack:
        raise ValueError('missing )')
    if not done:
        raise ValueError('unexpected end')
    return result


def escape(s: str) -> str:
    return s.replace('\\', '\\\\').replace('"', '\\"').replace('\n', '\\n')


def render(x) -> str:
    """iterative (deep chains exceed CPython's C recursion limit otherwise)"""
    out = []
    stack = [x]
    CLOSE = object()
    SPACE = object()
    while stack:
        x = stack.pop()
        if x is CLOSE:
            out.append(')')
        elif x is SPACE:
            out.append(' ')
        elif isinstance(x, Atom):
            out.append(str(x))
        elif isinstance(x, str):
            out.append('"' + escape(x) + '"')
        elif isinstance(x, bool):
            out.append('1' if x else '0')
        elif isinstance(x, int):
            out.append(str(x))
        elif isinstance(x, (list, tuple)):
            out.append('(')
            stack.append(CLOSE)
            n = len(x)
            for j in range(n - 1, -1, -1):
                stack.append(x[j])
                if j:
                    stack.append(SPACE)
        else:
            raise TypeError(f'cannot render {x!r}')
    return ''.join(out)
