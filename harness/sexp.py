"""S-expressions of the line protocol (mirror of lean/OptreeModel/Model/Sexp.lean).

Representation: atoms are `Atom(str)`, strings are Python `str`, lists are Python `list`.
"""

from __future__ import annotations


class Atom(str):
    __slots__ = ()

    def __repr__(self) -> str:
        return f'Atom({str.__repr__(self)})'


def A(s) -> Atom:
    return Atom(str(s))


def parse(line: str):
    pos = 0
    n = len(line)

    def skip():
        nonlocal pos
        while pos < n and line[pos] in ' \t\r\n':
            pos += 1

    def item():
        nonlocal pos
        skip()
        if pos >= n:
            raise ValueError('unexpected end')
        c = line[pos]
        if c == '(':
            pos += 1
            out = []
            while True:
                skip()
                if pos >= n:
                    raise ValueError('missing )')
                if line[pos] == ')':
                    pos += 1
                    return out
                out.append(item())
        if c == ')':
            raise ValueError('unexpected )')
        if c == '"':
            pos += 1
            buf = []
            while True:
                if pos >= n:
                    raise ValueError('unterminated string')
                ch = line[pos]
                if ch == '"':
                    pos += 1
                    return ''.join(buf)
                if ch == '\\':
                    nx = line[pos + 1]
                    buf.append({'n': '\n', 't': '\t'}.get(nx, nx))
                    pos += 2
                else:
                    buf.append(ch)
                    pos += 1
        start = pos
        while pos < n and line[pos] not in ' \t\r\n()"':
            pos += 1
        return Atom(line[start:pos])

    x = item()
    skip()
    if pos != n:
        raise ValueError('trailing tokens')
    return x


def escape(s: str) -> str:
    return s.replace('\\', '\\\\').replace('"', '\\"').replace('\n', '\\n')


def render(x) -> str:
    if isinstance(x, Atom):
        return str(x)
    if isinstance(x, str):
        return '"' + escape(x) + '"'
    if isinstance(x, bool):
        return '1' if x else '0'
    if isinstance(x, int):
        return str(x)
    if isinstance(x, (list, tuple)):
        return '(' + ' '.join(render(i) for i in x) + ')'
    raise TypeError(f'cannot render {x!r}')
